#!/bin/sh
# offline setup: third-party monitor libraries beside the repository's interpreter
HERE="$(cd "$(dirname "$0")" && pwd)"
cd "$HERE" || exit 2
if [ ! -d .deps/icontract ]; then
  /venv/bin/pip install --quiet --no-index --find-links /opt/veriftools/wheels --target .deps icontract 2>&1 | tail -2
fi
mkdir -p evidence replays .work
PYTHONPATH="$HERE/.deps:$HERE" /venv/bin/python -B -m vlib.selftest
