"""pytest plugin (-p vlib.plug.pytest_walker): the repository's own tests run with the M4 invariant
walker and the M7 contracts installed on the real classes.  The tests drive states the generators do
not (hand-written fixtures, test data files); the walker judges every outermost return of a
mutating entry point.  What it records is written to $VERIF_WALKER_OUT as JSON:
{test id -> [(prop, key, detail)]} and the evaluation counters."""
import json
import os

_rec = {"violations": {}, "counters": {}, "tests": 0}
_current = [None]


class _Ctx:
    """the part of vlib.ctx.Ctx that the monitors use."""
    prop = "C02"

    def violation(self, key, detail, case=None, prop=None):
        t = _current[0] or "?"
        _rec["violations"].setdefault(t, []).append([prop or self.prop, key, str(detail)[:400]])

    def count(self, name, n=1):
        _rec["counters"][name] = _rec["counters"].get(name, 0) + n

    def add(self, *a, **k):
        pass

    def nontriv(self, *a, **k):
        pass

    def sample(self, *a, **k):
        pass

    def inconc(self, reason):
        _rec["violations"].setdefault(_current[0] or "?", []).append(["harness", "inconclusive", str(reason)[:300]])

    case = None
    notes = {}


def pytest_configure(config):
    from vlib.mon import hooks
    hooks.RATE = 1
    hooks.install(_Ctx())


def pytest_runtest_setup(item):
    _current[0] = item.nodeid
    _rec["tests"] += 1


def pytest_sessionfinish(session, exitstatus):
    from vlib.mon import hooks
    _rec["hook_counts"] = hooks.counts()
    out = os.environ.get("VERIF_WALKER_OUT")
    if out:
        with open(out, "w") as f:
            json.dump(_rec, f, indent=1)
