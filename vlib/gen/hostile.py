"""G4 hostile text, G5 exhaustive short strings (DESIGN §4)."""
import itertools
from . import docs as G

RECORD_LETTERS = ["H", "S", "L", "C", "P", "E", "F", "G", "O", "U", "#", "X", "", " ", "s", "HH", "\x00"]
ATOMS = ["", "*", "+", "-", "0", "1", "10", "-1", "1$", "$", "A", "a", "ACGT", "1M", "1M2I", "1,2", "A+", "A+,B-",
         "A+ B-", "xx:i:1", "xx:Z:", "xx:J:{", "xx:J:[", "xx:J:1", "xx:H:1", "xx:H:zz", "xx:B:c", "xx:B:c,", "xx:B:x,1",
         "xx:f:.", "xx:f:e", "xx:i:", "x:i:1", "xxx:i:1", "xx:q:1", "xx:A:ab", "VN:Z:1.0", "VN:Z:2.0", "VN:Z:3.0",
         "VN:i:1", "TS:i:x", "TS:Z:1", "LN:i:-1", "LN:Z:x", "ID:Z:A", "ID:i:1", " ", "\x7f", "\x00", "é", "５",
         " ", "é", "1e5", "inf", "nan", "0x10", "1_0", "١", "٣M", "²", "1" * 40, "1" * 5000, "A" * 300, "[" * 60 + "]" * 60,
         "xx:J:" + "[" * 200 + "]" * 200, "xx:J:" + "[" * 6000 + "]" * 6000, "xx:J:" + '{"a":' * 3000 + "1" + "}" * 3000, "xx:J:" + '{"a":' * 50 + "1" + "}" * 50, "\r", "a\rb", "a\x0bb"]
PRINT = "".join(chr(c) for c in range(0x20, 0x7f))


def garbage(rng, n=None):
    n = n if n is not None else rng.randint(0, 12)
    pool = PRINT + "\t\t\t\n\x00\x7fé５"
    return "".join(rng.choice(pool) for _ in range(n))


def hostile_line(rng):
    k = rng.random()
    if k < 0.15:
        return garbage(rng)
    if k < 0.65:
        rt = rng.choice(RECORD_LETTERS)
        n = rng.randint(0, 10)
        return "\t".join([rt] + [rng.choice(ATOMS) for _ in range(n)])
    # single-point mutation of a valid line
    d = G.gen_doc(rng, canonical=rng.random() < 0.5)
    lines = d.lines()
    return mutate_line(rng, rng.choice(lines))


def mutate_line(rng, line):
    f = line.split("\t")
    k = rng.random()
    if k < 0.2 and len(f) > 1:
        del f[rng.randrange(len(f))]
    elif k < 0.35:
        f.insert(rng.randint(0, len(f)), rng.choice(ATOMS))
    elif k < 0.55:
        f[rng.randrange(len(f))] = rng.choice(ATOMS)
    elif k < 0.65 and len(f) > 1:
        i = rng.randrange(len(f))
        f.insert(i, f[i])
    elif k < 0.75 and len(f) > 2:
        i, j = rng.sample(range(len(f)), 2)
        f[i], f[j] = f[j], f[i]
    else:
        # character-level edit
        s = "\t".join(f)
        if not s:
            return rng.choice(ATOMS)
        i = rng.randrange(len(s))
        op = rng.random()
        c = rng.choice(PRINT + "\t\n\x00é$*+-,: ")
        if op < 0.34:
            s = s[:i] + s[i + 1:]
        elif op < 0.67:
            s = s[:i] + c + s[i:]
        else:
            s = s[:i] + c + s[i + 1:]
        return s
    return "\t".join(f)


def cyclic_groups_doc(rng):
    """syntactically valid GFA2 whose groups refer to each other / to themselves (invalid input)."""
    lines = ["S\ta\t10\t*", "S\tb\t10\t*", "S\tc\t10\t*", "E\te1\ta+\tb+\t7\t10$\t0\t3\t*",
             "E\te2\tb+\tc+\t7\t10$\t0\t3\t*"]
    k = rng.randrange(5)
    if k == 0:
        lines += ["O\to1\to2+ a+", "O\to2\to1+ b+"]
    elif k == 1:
        lines += ["U\tu1\tu2 a", "U\tu2\tu1 b"]
    elif k == 2:
        lines += ["O\to1\to1+ a+"]
    elif k == 3:
        lines += ["O\to1\to2+ a+", "O\to2\to3- b+", "O\to3\to1+ c+", "U\tu1\to1 o2"]
    else:
        lines += ["U\tu1\tu1", "U\tu2\tu1 u2 a"]
    rng.shuffle(lines)
    return lines


def hostile_doc(rng):
    k = rng.random()
    if k < 0.06:
        return cyclic_groups_doc(rng)
    if k < 0.3:
        return [hostile_line(rng) for _ in range(rng.randint(0, 6))]
    d = G.gen_doc(rng, canonical=rng.random() < 0.5)
    lines = d.lines()
    rng.shuffle(lines)
    for _ in range(rng.choice([1, 1, 2, 3])):
        op = rng.random()
        if not lines:
            lines.append(hostile_line(rng))
        elif op < 0.35:
            i = rng.randrange(len(lines))
            lines[i] = mutate_line(rng, lines[i])
        elif op < 0.5:
            del lines[rng.randrange(len(lines))]
        elif op < 0.65:
            lines.insert(rng.randint(0, len(lines)), hostile_line(rng))
        elif op < 0.8:
            lines.insert(rng.randint(0, len(lines)), rng.choice(lines))
        elif op < 0.9:
            other = G.gen_doc(rng).lines()
            lines.insert(rng.randint(0, len(lines)), rng.choice(other))
        else:
            lines.insert(rng.randint(0, len(lines)), rng.choice(["", " ", "\t", "\r"]))
    return lines


# ------------------------------------------------------------------ G5 exhaustive
ALPHABETS = {
    # tag datatypes
    "A": ["a", "Z", "!", "~", " ", "*", "1", "\n", "é", "\x7f", ":"],
    "i": ["0", "1", "9", "-", "+", "_", " ", ".", "e", "\n", "５", "x", "٣"],
    "f": ["0", "1", "-", "+", ".", "e", "E", "_", " ", "n", "a", "i", "f", "\n"],
    "Z": ["a", " ", "~", "!", "\n", "é", "\x7f", "\x1f", "*", ":"],
    "J": ["[", "]", "{", "}", "\"", "1", ",", ":", " ", "a", "\n", "n", "t"],
    "H": ["0", "9", "A", "F", "a", "f", "G", " ", "\n", "x", "-"],
    "B": ["c", "C", "f", "i", "I", "s", ",", "1", "2", "5", "6", "-", "+", ".", "e", "\n", " "],
    # positional datatypes
    "name1": ["a", "1", "*", "=", "+", "-", ",", " ", "\n", "é", "~", "!"],
    "seq1": ["A", "c", "*", "=", ".", "1", " ", "-", "\n", "N"],
    "orient": ["+", "-", "*", " ", "\n", "1", "a"],
    "cigar1": ["1", "0", "M", "I", "=", "X", "*", ",", "m", " ", "\n", "-", "S"],
    "cigar1_list": ["1", "M", "D", "*", ",", " ", "\n", "m", "-"],
    "pos1": ["0", "1", "9", "-", "+", "$", " ", "\n", "_", "５", "."],
    "seglist1": ["a", "1", "+", "-", ",", " ", "*", "\n", "="],
    "id2": ["a", "1", "*", "+", " ", "\n", "é", "~", "\x7f", ","],
    "slen": ["0", "1", "9", "-", "+", "$", " ", "\n", "_", "５", ".", "*"],
    "seq2": ["A", "c", "*", "1", " ", "\n", "é", "~", "-"],
    "ref2": ["a", "1", "+", "-", "*", " ", "\n", "é", ","],
    "pos2": ["0", "1", "9", "$", "-", "+", " ", "\n", "_", "５", "*"],
    "aln2": ["1", "0", "M", "D", "I", "P", "=", "X", "*", ",", " ", "\n", "-", "m"],
    "optid2": ["a", "1", "*", "+", " ", "\n", "é", "~"],
    "int": ["0", "1", "9", "-", "+", "*", " ", "\n", "_", "５", "."],
    "optint": ["0", "1", "9", "-", "+", "*", " ", "\n", "_", "５", "."],
    "reflist2": ["a", "1", "+", "-", " ", "*", "\n", "é", ","],
    "idlist2": ["a", "1", "+", " ", "*", "\n", "é", ","],
}

# carrier lines: (version, template with one {} slot); other fields are valid
CARRIERS = {
    "A": ("gfa1", "S\tA\t*\txx:A:{}"), "i": ("gfa1", "S\tA\t*\txx:i:{}"), "f": ("gfa1", "S\tA\t*\txx:f:{}"),
    "Z": ("gfa1", "S\tA\t*\txx:Z:{}"), "J": ("gfa1", "S\tA\t*\txx:J:{}"), "H": ("gfa1", "S\tA\t*\txx:H:{}"),
    "B": ("gfa1", "S\tA\t*\txx:B:{}"),
    "name1": ("gfa1", "S\t{}\t*"), "seq1": ("gfa1", "S\tA\t{}"), "orient": ("gfa1", "L\tA\t{}\tB\t+\t*"),
    "cigar1": ("gfa1", "L\tA\t+\tB\t+\t{}"), "cigar1_list": ("gfa1", "P\tp\tA+,B+,C+\t{}"),
    "pos1": ("gfa1", "C\tA\t+\tB\t+\t{}\t*"), "seglist1": ("gfa1", "P\tp\t{}\t*"),
    "id2": ("gfa2", "S\t{}\t10\t*"), "slen": ("gfa2", "S\tA\t{}\t*"), "seq2": ("gfa2", "S\tA\t10\t{}"),
    "ref2": ("gfa2", "E\t*\t{}\tB-\t0\t1\t0\t1\t*"), "pos2": ("gfa2", "E\t*\tA+\tB-\t{}\t100\t0\t1\t*"),
    "aln2": ("gfa2", "E\t*\tA+\tB-\t0\t1\t0\t1\t{}"), "optid2": ("gfa2", "E\t{}\tA+\tB-\t0\t1\t0\t1\t*"),
    "int": ("gfa2", "G\t*\tA+\tB-\t{}\t*"), "optint": ("gfa2", "G\t*\tA+\tB-\t10\t{}"),
    "reflist2": ("gfa2", "O\t*\t{}"), "idlist2": ("gfa2", "U\t*\t{}"),
}


# boundary and special spellings per datatype, longer than the exhaustive bound: judged in every run
BOUNDARY = {
    "B": ["c,127", "c,128", "c,-128", "c,-129", "C,255", "C,256", "C,-1", "C,0", "s,32767", "s,32768", "s,-32768", "s,-32769",
          "S,65535", "S,65536", "i,2147483647", "i,2147483648", "i,-2147483648", "i,-2147483649", "I,4294967295",
          "I,4294967296", "I,-1", "c,1,128,2", "C,1,256", "f,1e38", "f,-1.5e-5", "f,1e400", "f,nan", "f,inf", "c,1.0", "C,+5",
          "C,-0", "i,0x10", "f,.5", "f,5.", "c,", "c,,1", "Q,1", "c"],
    "J": ["[NaN]", "[Infinity]", "[-Infinity]", "{\"a\":NaN}", "[1e999]", "[1,]", "{\"a\":1,}", "[01]", "['a']", "[true]",
          "[null]", "{\"a\":{\"b\":[1,2,{\"c\":null}]}}", "[\"\\u00e9\"]", "[\"a\tb\"]", "{1:2}", "[1 2]", "[]", "{}",
          "[[[[[[[[[[1]]]]]]]]]]"],
    "i": ["2147483647", "-2147483648", "9223372036854775807", "9223372036854775808", "-9223372036854775809", "+0", "-0",
          "00012", "1e3", "0x1F", "1_000", "12 ", " 12"],
    "f": ["1e308", "1e309", "-1e309", "1e-400", "nan", "NaN", "inf", "-inf", "Infinity", "1.e5", ".5e-3", "5.", "+.5", "1e+05",
          "1E5", "0x1p3", "1_0.0", "1,5"],
    "H": ["00", "FF", "0a", "0G", "ABC", "ABCD", "abcd"],
    "A": ["a", "ab", " ", "~", "\x7f"],
    "Z": ["a b", " ", "a\tb", "\u00e9", "~!@#$%^&*()"],
    "pos2": ["0", "10", "10$", "0$", "$", "10$$", "-1", "+1", "1e1", "010"],
    "slen": ["0", "10", "010", "+10", "-10", "10$", "1e1"],
    "seglist1": ["a+,*b-", "a+,=b-", "*a+", "=a+,b-", "a+,b", "a+,b-,", ",a+", "a+ b-", "a+,b-,c+", "a+,a-", "a", "+", "a+,+"],
    "reflist2": ["a+ *b-", "a+ b", "a+  b-", " a+", "a+ ", "a+ b- c+", "a+,b-", "*+", "a"],
    "idlist2": ["a b", "a  b", " a", "a ", "a,b", "*", "a *"],
    "name1": ["*a", "=a", "a*", "a=", "a+,b", "a-,b", "a,b", "a+", "+a", "a b", "a\tb"],
    "cigar1": ["10M", "0M", "1M1M", "1=1X1N1S1H1P", "M", "1", "1m", "1M,", "*", "**", "1*"],
    "aln2": ["10M", "8M2X", "4M2=4M", "1M1S", "2M1N", "1M1H", "1P2M1X", "3D1=", "1=", "1X", "1N", "1S", "1H", "1P", "1,2,3", "1,,2", "1,2,", "0", "*", "1M2"],
}


def short_strings(kind, maxlen):
    al = ALPHABETS[kind]
    for n in range(0, maxlen + 1):
        for t in itertools.product(al, repeat=n):
            yield "".join(t)
    for s in BOUNDARY.get(kind, ()):
        yield s


def n_short_strings(kind, maxlen):
    a = len(ALPHABETS[kind])
    return sum(a ** n for n in range(0, maxlen + 1)) + len(BOUNDARY.get(kind, ()))
