"""G1: seeded generators of VALID GFA1 / GFA2 documents drawn from the model grammar
(never from gfapy's parser).  Output: list of line strings (+ version)."""
from . import values as V

NAME_POOL_1 = ["A", "B", "C", "D", "E2", "s1", "s2", "s3", "x.y", "n_1", "12", "7", "3", "a:b", "q|r",
               "seg-1", "c+d", "H", "L", "P", "S", "U1", "e", "zz9", "N*", "t#1"]
NAME_POOL_2 = NAME_POOL_1 + ["a,b", "x=y", "*a", "=z", "p+", "m-m"]
BASES = "ACGT"


def rseq(rng, n, alphabet=BASES):
    return "".join(rng.choice(alphabet) for _ in range(n))


def cigar1(rng, nops=None, ops="MIDP=XH", maxlen=9):
    n = nops or rng.randint(1, 4)
    out = []
    last = None
    for _ in range(n):
        c = rng.choice(ops)
        while c == last and len(ops) > 1:
            c = rng.choice(ops)
        last = c
        out.append("%d%s" % (rng.randint(1, maxlen), c))
    return "".join(out)


def cigar_ref_len(cig):
    import re
    return sum(int(n) for n, c in re.findall(r"([0-9]+)([MIDNSHPX=])", cig) if c in "M=XDN")


def cigar_query_len(cig):
    import re
    return sum(int(n) for n, c in re.findall(r"([0-9]+)([MIDNSHPX=])", cig) if c in "M=XIS")


def inv(o):
    return "-" if o == "+" else "+"


def tags_text(tags):
    return ["%s:%s:%s" % t for t in tags]


# =============================================================================== GFA1
class Gfa1Doc:
    """structured GFA1 document; .lines() renders it."""

    def __init__(self):
        self.headers = []      # list of tag lists
        self.comments = []
        self.segments = []     # dict(name, seq, tags)
        self.links = []        # dict(f, fo, t, to, ov, tags)
        self.conts = []        # dict(f, fo, t, to, pos, ov, tags)
        self.paths = []        # dict(name, segs[(n,o)], ovs[list str], tags)
        self.version = "gfa1"

    def seg_len(self, name):
        for s in self.segments:
            if s["name"] == name:
                if s["seq"] != "*":
                    return len(s["seq"])
                for n, d, v in s["tags"]:
                    if n == "LN":
                        return int(v)
        return None

    def lines(self):
        out = []
        for h in self.headers:
            out.append("\t".join(["H"] + tags_text(h)))
        for c in self.comments:
            out.append(c)
        for s in self.segments:
            out.append("\t".join(["S", s["name"], s["seq"]] + tags_text(s["tags"])))
        for l in self.links:
            out.append("\t".join(["L", l["f"], l["fo"], l["t"], l["to"], l["ov"]] + tags_text(l["tags"])))
        for c in self.conts:
            out.append("\t".join(["C", c["f"], c["fo"], c["t"], c["to"], str(c["pos"]), c["ov"]]
                                 + tags_text(c["tags"])))
        for p in self.paths:
            out.append("\t".join(["P", p["name"], ",".join(n + o for n, o in p["segs"]),
                                  ",".join(p["ovs"])] + tags_text(p["tags"])))
        return out


def _repeated_header_tag(rng, d, canonical):
    """the same custom tag (one datatype) defined on several H lines: documented multi-value header."""
    if rng.random() < 0.25:
        used = set(t[0] for h in d.headers for t in h)
        name = V.tagname(rng, used)
        dt = rng.choice(V.DATATYPES)
        for _ in range(rng.randint(2, 3)):
            d.headers.append([(name, dt, V.tag_value_text(rng, dt, canonical))])


def link_key(l):
    """canonical key of a link modulo complement (ignoring overlap)."""
    a = (l["f"], l["fo"], l["t"], l["to"])
    b = (l["t"], inv(l["to"]), l["f"], inv(l["fo"]))
    return min(a, b)


def gen_gfa1(rng, canonical=True, nseg=None, nlinks=None, nconts=None, npaths=None,
             with_lengths=False, cigar_ops="MIDP=XH", star_overlaps=True, header=True,
             comments=True, tags=True, names=None, allow_parallel=True, seqs=True):
    d = Gfa1Doc()
    nseg = nseg if nseg is not None else rng.randint(1, 6)
    pool = list(names or NAME_POOL_1)
    rng.shuffle(pool)
    names = pool[:nseg]
    mk_tags = (lambda used=(): V.random_tags(rng, canonical=canonical, used=used)) if tags else (lambda used=(): [])
    if header:
        k = rng.choice([0, 1, 1, 2, 3])
        used = set()
        for i in range(k):
            ht = []
            if i == 0 and rng.random() < 0.6:
                ht.append(("VN", "Z", "1.0"))
            for t in V.random_tags(rng, n=rng.randint(0 if ht else 1, 2), canonical=canonical, used=used):
                used.add(t[0])
                ht.append(t)
            if ht:
                d.headers.append(ht)
        _repeated_header_tag(rng, d, canonical)
    if comments:
        for _ in range(rng.choice([0, 0, 1, 2])):
            d.comments.append(rng.choice(["# comment", "#no space", "#  two spaces x:i:1", "# a\tb", "#"]))
    for n in names:
        if seqs and rng.random() < (0.8 if with_lengths else 0.5):
            seq = rseq(rng, rng.randint(1, 14), rng.choice([BASES, BASES, "acgt", "ACGTN"]))
        else:
            seq = "*"
        st = []
        if seq == "*":
            if with_lengths or rng.random() < 0.4:
                st.append(("LN", "i", str(rng.randint(1, 30))))
        elif rng.random() < 0.4:
            st.append(("LN", "i", str(len(seq))))
        if tags and rng.random() < 0.3:
            st.append((rng.choice(["RC", "FC", "KC"]), "i", str(rng.randint(0, 1000))))
        if tags and rng.random() < 0.15:
            st.append(("SH", "H", V.tag_value_text(rng, "H")))
        if tags and rng.random() < 0.15:
            st.append(("UR", "Z", "http://x/" + n))
        st += mk_tags([t[0] for t in st])
        rng.shuffle(st)
        d.segments.append({"name": n, "seq": seq, "tags": st})
    # links
    nlinks = nlinks if nlinks is not None else rng.randint(0, 2 * nseg)
    seen = {}
    idused = set(names)
    for _ in range(nlinks):
        f, t = rng.choice(names), rng.choice(names)
        l = {"f": f, "fo": rng.choice("+-"), "t": t, "to": rng.choice("+-")}
        lf, lt = d.seg_len(f), d.seg_len(t)
        if star_overlaps and rng.random() < 0.35 and not with_lengths:
            l["ov"] = "*"
        else:
            l["ov"] = _fit_cigar(rng, cigar_ops, lf, lt)
            if l["ov"] is None:
                if with_lengths:
                    continue
                l["ov"] = "*"
        k = link_key(l)
        if k in seen:
            # a parallel edge between the same oriented ends: only with distinct,
            # specified overlaps (parallel links with '*' are UNSPECIFIED, §3.1)
            if not allow_parallel or l["ov"] == "*" or any(o == "*" for o in seen[k]):
                continue
            from ..spec.grammar import cigar_complement
            if l["ov"] in seen[k] or cigar_complement(l["ov"]) in seen[k]:
                continue
            seen[k].append(l["ov"])
        else:
            seen[k] = [l["ov"]]
        lt_ = []
        if tags and rng.random() < 0.25:
            i = "l%d" % len(d.links)
            if i not in idused:
                idused.add(i)
                lt_.append(("ID", "Z", i))
        if tags and rng.random() < 0.3:
            lt_.append((rng.choice(["MQ", "NM", "RC", "FC", "KC"]), "i", str(rng.randint(0, 255))))
        lt_ += mk_tags([t[0] for t in lt_])
        l["tags"] = lt_
        d.links.append(l)
    # containments
    nconts = nconts if nconts is not None else rng.choice([0, 0, 1, 2])
    for _ in range(nconts):
        if nseg < 2:
            break
        f, t = rng.sample(names, 2)
        lf, lt = d.seg_len(f), d.seg_len(t)
        c = {"f": f, "fo": rng.choice("+-"), "t": t, "to": rng.choice("+-")}
        if lf is not None and lt is not None and lt <= lf and (with_lengths or rng.random() < 0.7):
            # contained segment aligned over its whole length: query length == lt
            ov = _cigar_with_lengths(rng, cigar_ops, None, lt, maxref=lf)
            if ov is None:
                continue
            rl = cigar_ref_len(ov)
            c["pos"] = rng.choice([0, lf - rl, rng.randint(0, lf - rl)])
            c["ov"] = ov
        elif with_lengths:
            continue
        else:
            c["pos"] = rng.randint(0, 20)
            c["ov"] = rng.choice(["*", cigar1(rng, ops=cigar_ops)])
        ct = []
        if tags and rng.random() < 0.25:
            i = "c%d" % len(d.conts)
            if i not in idused:
                idused.add(i)
                ct.append(("ID", "Z", i))
        if tags and rng.random() < 0.2:
            ct.append((rng.choice(["MQ", "NM"]), "i", str(rng.randint(0, 255))))
        ct += mk_tags([t[0] for t in ct])
        c["tags"] = ct
        d.conts.append(c)
    # paths over existing links (either direction)
    npaths = npaths if npaths is not None else rng.choice([0, 0, 1, 1, 2])
    pnames = [n for n in ["p1", "p2", "pth", "9", "P"] if n not in idused]
    for _ in range(npaths):
        if not pnames:
            break
        p = _gen_path(rng, d, pnames.pop(0))
        if p:
            p["tags"] = mk_tags()
            d.paths.append(p)
            idused.add(p["name"])
    return d


def _fit_cigar(rng, ops, lf, lt):
    """a CIGAR whose reference/query lengths fit into segments of length lf/lt (None = any)."""
    for _ in range(20):
        c = cigar1(rng, ops=ops, maxlen=6)
        if (lf is None or cigar_ref_len(c) <= lf) and (lt is None or cigar_query_len(c) <= lt):
            return c
    c = "1M"
    if (lf is None or lf >= 1) and (lt is None or lt >= 1):
        return c
    return None


def _cigar_with_lengths(rng, ops, reflen, qlen, maxref=None):
    """CIGAR with exactly query length qlen (and ref length <= maxref)."""
    for _ in range(40):
        out = []
        q = 0
        r = 0
        last = None
        while q < qlen:
            c = rng.choice([o for o in ops if o in "MIDP=X"] or "M")
            if c == last:
                continue
            n = rng.randint(1, max(1, min(4, qlen - q))) if c in "MI=X" else rng.randint(1, 3)
            if c in "MI=X":
                n = min(n, qlen - q)
                q += n
            if c in "MD=X":
                r += n
            out.append("%d%s" % (n, c))
            last = c
        if maxref is None or r <= maxref:
            return "".join(out)
    if maxref is None or qlen <= maxref:
        return "%dM" % qlen
    return None


def _gen_path(rng, d, name):
    if not d.links:
        if d.segments and rng.random() < 0.5:
            s = rng.choice(d.segments)["name"]
            return {"name": name, "segs": [(s, rng.choice("+-"))], "ovs": ["*"]}
        return None
    # adjacency over oriented segments, both traversal directions of each link
    adj = {}
    for l in d.links:
        adj.setdefault((l["f"], l["fo"]), []).append(((l["t"], l["to"]), l["ov"], l))
        from ..spec.grammar import cigar_complement
        adj.setdefault((l["t"], inv(l["to"])), []).append(((l["f"], inv(l["fo"])), cigar_complement(l["ov"]), l))
    if d.segments and rng.random() < 0.12:
        # a path of a single segment (it runs over no link)
        s = rng.choice(d.segments)["name"]
        return {"name": name, "segs": [(s, rng.choice("+-"))], "ovs": ["*"]}
    selfl = [l for l in d.links if l["f"] == l["t"] and l["fo"] == l["to"] and l["ov"] != "*"]
    if selfl and rng.random() < 0.35 and not _has_parallel(d):
        l = rng.choice(selfl)
        if rng.random() < 0.5:
            return {"name": name, "segs": [(l["f"], l["fo"])], "ovs": [l["ov"]]}
        from ..spec.grammar import cigar_complement
        return {"name": name, "segs": [(l["f"], inv(l["fo"]))], "ovs": [cigar_complement(l["ov"])]}
    cur = rng.choice(list(adj.keys()))
    segs = [cur]
    ovs = []
    for _ in range(rng.randint(1, 5)):
        nxt = adj.get(cur)
        if not nxt:
            break
        # a step is unambiguous for the link finder only if the (from,to,overlap) triple
        # identifies one link; with parallel links we must spell the overlap
        (to, ov, l) = rng.choice(nxt)
        segs.append(to)
        ovs.append(ov)
        cur = to
    if len(segs) < 2:
        return None
    circ = False
    for (to, ov, l) in adj.get(cur, []):
        if to == segs[0] and rng.random() < 0.5:
            ovs.append(ov)
            circ = True
            break
    parallel = _has_parallel(d)
    if not circ and not parallel and rng.random() < 0.3:
        ovs = ["*"]
    elif not parallel and rng.random() < 0.2 and (circ or len(ovs) != 1):
        # '*' per step is accepted in place of the stored overlap
        ovs = ["*" for _ in ovs]
        if not circ and len(ovs) == 1:
            pass
    return {"name": name, "segs": segs, "ovs": ovs}


def _has_parallel(d):
    seen = set()
    for l in d.links:
        k = link_key(l)
        if k in seen:
            return True
        seen.add(k)
    return False


# =============================================================================== GFA2
class Gfa2Doc:
    def __init__(self):
        self.headers = []
        self.comments = []
        self.segments = []   # dict(sid, slen, seq, tags)
        self.edges = []      # dict(eid, s1, o1, s2, o2, b1,e1,b2,e2 (str), aln, tags)
        self.gaps = []       # dict(gid, s1,o1,s2,o2, disp, var, tags)
        self.frags = []      # dict(sid, ext, eo, sb,se,fb,fe, aln, tags)
        self.ogroups = []    # dict(oid, items[(id,o)], tags)
        self.ugroups = []    # dict(uid, items[id], tags)
        self.customs = []    # raw lines
        self.version = "gfa2"

    def slen(self, sid):
        for s in self.segments:
            if s["sid"] == sid:
                return s["slen"]
        return None

    def lines(self):
        out = []
        for h in self.headers:
            out.append("\t".join(["H"] + tags_text(h)))
        out += self.comments
        for s in self.segments:
            out.append("\t".join(["S", s["sid"], str(s["slen"]), s["seq"]] + tags_text(s["tags"])))
        for e in self.edges:
            out.append("\t".join(["E", e["eid"], e["s1"] + e["o1"], e["s2"] + e["o2"], e["b1"], e["e1"],
                                  e["b2"], e["e2"], e["aln"]] + tags_text(e["tags"])))
        for g in self.gaps:
            out.append("\t".join(["G", g["gid"], g["s1"] + g["o1"], g["s2"] + g["o2"], str(g["disp"]),
                                  str(g["var"])] + tags_text(g["tags"])))
        for f in self.frags:
            out.append("\t".join(["F", f["sid"], f["ext"] + f["eo"], f["sb"], f["se"], f["fb"], f["fe"],
                                  f["aln"]] + tags_text(f["tags"])))
        for o in self.ogroups:
            out.append("\t".join(["O", o["oid"], " ".join(i + x for i, x in o["items"])] + tags_text(o["tags"])))
        for u in self.ugroups:
            out.append("\t".join(["U", u["uid"], " ".join(u["items"])] + tags_text(u["tags"])))
        out += self.customs
        return out


def pos2(v, slen):
    return "%d$" % v if v == slen else str(v)


def interval(rng, slen, kind=None):
    """(beg, end) strings for a segment of length slen; kind in
    pfx, sfx, whole, inner, empty_pfx, empty_sfx, empty_inner or None (random)."""
    kinds = ["pfx", "sfx", "whole", "inner", "empty_pfx", "empty_sfx", "empty_inner"]
    if kind is None:
        kind = rng.choice(kinds)
    if slen < 3 and kind in ("inner", "empty_inner"):
        kind = "whole"
    if slen < 2 and kind in ("pfx", "sfx"):
        kind = "whole"
    if kind == "pfx":
        b, e = 0, rng.randint(1, slen - 1)
    elif kind == "sfx":
        b, e = rng.randint(1, slen - 1), slen
    elif kind == "whole":
        b, e = 0, slen
    elif kind == "inner":
        b = rng.randint(1, slen - 2)
        e = rng.randint(b + 1, slen - 1)
    elif kind == "empty_pfx":
        b, e = 0, 0
    elif kind == "empty_sfx":
        b, e = slen, slen
    else:
        b = e = rng.randint(1, slen - 1)
    return pos2(b, slen), pos2(e, slen), kind


def aln2(rng, reflen=None, qlen=None):
    k = rng.random()
    if k < 0.35:
        return "*"
    if k < 0.5:
        return ",".join(str(rng.randint(0, 30)) for _ in range(rng.randint(1, 4)))
    return cigar1(rng, ops="MDIP", maxlen=9)


def gen_gfa2(rng, canonical=True, nseg=None, nedges=None, ngaps=None, nfrags=None, nog=None, nug=None,
             ncustom=None, header=True, comments=True, tags=True, names=None, seqs=True,
             group_nesting=True, gaps_in_sets=False, gaps_in_paths=False, alias_tags=True):
    d = Gfa2Doc()
    nseg = nseg if nseg is not None else rng.randint(1, 6)
    pool = list(names or NAME_POOL_2)
    rng.shuffle(pool)
    names = pool[:nseg]
    ids = set(names)
    mk_tags = (lambda used=(): V.random_tags(rng, canonical=canonical, used=used)) if tags else (lambda used=(): [])

    def fresh(prefix):
        i = 1
        while True:
            n = "%s%d" % (prefix, i)
            if n not in ids:
                ids.add(n)
                return n
            i += 1
    if header:
        k = rng.choice([0, 1, 1, 2, 3])
        used = set()
        for i in range(k):
            ht = []
            if i == 0 and rng.random() < 0.6:
                ht.append(("VN", "Z", "2.0"))
            if i == 0 and rng.random() < 0.3:
                ht.append(("TS", "i", str(rng.randint(1, 500))))
            for t in V.random_tags(rng, n=rng.randint(0 if ht else 1, 2), canonical=canonical, used=used):
                used.add(t[0])
                ht.append(t)
            if ht:
                d.headers.append(ht)
        _repeated_header_tag(rng, d, canonical)
    if comments:
        for _ in range(rng.choice([0, 0, 1, 2])):
            d.comments.append(rng.choice(["# comment", "#no space", "#  two spaces", "# a\tb", "#"]))
    for n in names:
        if seqs and rng.random() < 0.5:
            L = rng.randint(1, 14)
            seq = rseq(rng, L)
        else:
            L = rng.randint(1, 40)
            seq = "*"
        st = []
        if tags and rng.random() < 0.3:
            st.append((rng.choice(["RC", "FC", "KC"]), "i", str(rng.randint(0, 1000))))
        st += mk_tags([t[0] for t in st])
        if tags and alias_tags and rng.random() < 0.08:
            # LN is not a predefined tag of GFA2 segments (gfapy offers 'LN' as an alias of slen in
            # its API): as a tag of the text it is a custom tag like any other
            st.append(("LN", "i", str(rng.randint(0, 99))))
        d.segments.append({"sid": n, "slen": L, "seq": seq, "tags": st})
    nedges = nedges if nedges is not None else rng.randint(0, 2 * nseg)
    for _ in range(nedges):
        s1, s2 = rng.choice(names), rng.choice(names)
        b1, e1, _k1 = interval(rng, d.slen(s1))
        b2, e2, _k2 = interval(rng, d.slen(s2))
        e = {"eid": rng.choice(["*", None, None]), "s1": s1, "o1": rng.choice("+-"), "s2": s2,
             "o2": rng.choice("+-"), "b1": b1, "e1": e1, "b2": b2, "e2": e2, "aln": aln2(rng)}
        if e["eid"] is None:
            e["eid"] = fresh("e")
        et = []
        if tags and rng.random() < 0.15:
            et.append(("TS", "i", str(rng.randint(1, 100))))
        et += mk_tags([t[0] for t in et])
        e["tags"] = et
        d.edges.append(e)
    ngaps = ngaps if ngaps is not None else rng.choice([0, 0, 1, 2])
    for _ in range(ngaps):
        s1, s2 = rng.choice(names), rng.choice(names)
        g = {"gid": rng.choice(["*", None, None]), "s1": s1, "o1": rng.choice("+-"), "s2": s2,
             "o2": rng.choice("+-"), "disp": rng.choice([0, 10, -5, rng.randint(-100, 1000)]),
             "var": rng.choice(["*", 0, 7, rng.randint(0, 100)]), "tags": mk_tags()}
        if g["gid"] is None:
            g["gid"] = fresh("g")
        d.gaps.append(g)
    nfrags = nfrags if nfrags is not None else rng.choice([0, 0, 1, 2])
    for _ in range(nfrags):
        s = rng.choice(names)
        sb, se, _k = interval(rng, d.slen(s))
        fl = rng.randint(1, 30)
        fb, fe, _k = interval(rng, fl)
        ft = []
        if tags and rng.random() < 0.15:
            ft.append(("TS", "i", str(rng.randint(1, 100))))
        ft += mk_tags([t[0] for t in ft])
        d.frags.append({"sid": s, "ext": rng.choice(["read1", "r2", "ext.3", s]), "eo": rng.choice("+-"),
                        "sb": sb, "se": se, "fb": fb.replace("$", "") if rng.random() < 0.5 else fb,
                        "fe": fe, "aln": aln2(rng), "tags": ft})
    # groups
    named_edges = [e["eid"] for e in d.edges if e["eid"] != "*"]
    nog = nog if nog is not None else rng.choice([0, 0, 1, 2])
    for _ in range(nog):
        cand = [(n, "S") for n in names] + [(n, "E") for n in named_edges]
        if group_nesting:
            cand += [(o["oid"], "O") for o in d.ogroups if o["oid"] != "*"]
        if gaps_in_paths:
            # gfapy documents gaps as items of ordered groups (the GFA2 text does not list them)
            cand += [(g["gid"], "G") for g in d.gaps if g["gid"] != "*"] * 2
        k = rng.randint(1, 4)
        items = [(rng.choice(cand)[0], rng.choice("+-")) for _ in range(k)]
        oid = rng.choice(["*", None, None])
        if oid is None:
            oid = fresh("o")
        d.ogroups.append({"oid": oid, "items": items, "tags": mk_tags()})
    nug = nug if nug is not None else rng.choice([0, 0, 1, 2])
    for _ in range(nug):
        cand = list(names) + named_edges
        if group_nesting:
            cand += [o["oid"] for o in d.ogroups if o["oid"] != "*"]
            cand += [u["uid"] for u in d.ugroups if u["uid"] != "*"]
        if gaps_in_sets:
            cand += [g["gid"] for g in d.gaps if g["gid"] != "*"]
        k = rng.randint(1, 4)
        items = [rng.choice(cand) for _ in range(k)]
        uid = rng.choice(["*", None, None])
        if uid is None:
            uid = fresh("u")
        d.ugroups.append({"uid": uid, "items": items, "tags": mk_tags()})
    ncustom = ncustom if ncustom is not None else rng.choice([0, 0, 0, 1, 2])
    prev_rt, prev_n = None, None
    for _ in range(ncustom):
        # (also types spelled with the letters of the predefined record types)
        rt = rng.choice(["X", "Y", "ZZ", "x1", "@", "SE", "GU", "SEG", "UO", "FS", "EG", "LC", "CP", "HS", "ANN", "s", "9", "S1"])
        nf = rng.randint(0, 3)
        if prev_rt is not None and rng.random() < 0.5:
            # a second record of the same type with another number of fields
            rt = prev_rt
            nf = rng.choice([x for x in range(0, 5) if x != prev_n])
        prev_rt, prev_n = rt, nf
        f = [rt] + [rng.choice(["abc", "1", "a b", "x:y", "*"]) for _ in range(nf)]
        f += tags_text(mk_tags())
        d.customs.append("\t".join(f))
    return d


def gen_rgfa(rng, canonical=True, comments=True):
    """valid rGFA document (dialect of GFA1): no H/C/P lines, S lines with SN:Z SO:i SR:i, links with
    0M overlaps and optional SR/L1/L2:i tags; further tags of any datatype allowed."""
    d = Gfa1Doc()
    pool = list(NAME_POOL_1)
    rng.shuffle(pool)
    names = pool[:rng.randint(1, 6)]
    if comments:
        for _ in range(rng.choice([0, 0, 1, 2])):
            d.comments.append(rng.choice(["# comment", "#no space", "# a\tb", "#"]))
    off = 0
    for n in names:
        seq = rseq(rng, rng.randint(1, 12)) if rng.random() < 0.6 else "*"
        st = [("SN", "Z", rng.choice(["chr1", "chr2", "ctg.7", "x y"])), ("SO", "i", str(off)),
              ("SR", "i", str(rng.choice([0, 0, 1, 2])))]
        off += rng.randint(0, 50)
        rng.shuffle(st)
        if seq == "*" and rng.random() < 0.5:
            st.append(("LN", "i", str(rng.randint(1, 30))))
        st += V.random_tags(rng, n=rng.randint(0, 2), canonical=canonical,
                            used={"SN", "SO", "SR", "LN", "RC", "FC", "KC", "SH", "UR"})
        d.segments.append({"name": n, "seq": seq, "tags": st})
    seen = set()
    for _ in range(rng.randint(0, 6)):
        l = {"f": rng.choice(names), "fo": rng.choice("+-"), "t": rng.choice(names), "to": rng.choice("+-"),
             "ov": "0M", "tags": []}
        if link_key(l) in seen:
            continue
        seen.add(link_key(l))
        for tn in ("SR", "L1", "L2"):
            if rng.random() < 0.4:
                l["tags"].append((tn, "i", str(rng.randint(0, 99))))
        l["tags"] += V.random_tags(rng, n=rng.randint(0, 1), canonical=canonical,
                                   used={"SR", "L1", "L2", "MQ", "NM", "RC", "FC", "KC", "ID"})
        d.links.append(l)
    return d


def gen_doc(rng, version=None, **kw):
    version = version or rng.choice(["gfa1", "gfa2"])
    return gen_gfa1(rng, **kw) if version == "gfa1" else gen_gfa2(rng, **kw)


def consistent_cigar(rng, rl, ql, ops="MIDP"):
    """CIGAR with exactly the given reference and query lengths."""
    out = []
    r, q = rl, ql
    last = None
    guard = 0
    while (r > 0 or q > 0) and guard < 50:
        guard += 1
        choices = []
        if r > 0 and q > 0:
            choices += ["M", "M"]
        if r > 0:
            choices.append("D")
        if q > 0:
            choices.append("I")
        if "P" in ops and rng.random() < 0.15:
            choices.append("P")
        c = rng.choice([x for x in choices if x != last] or choices)
        if c == "M":
            n = rng.randint(1, min(r, q))
            r -= n
            q -= n
        elif c == "D":
            n = rng.randint(1, r)
            r -= n
        elif c == "I":
            n = rng.randint(1, q)
            q -= n
        else:
            n = rng.randint(1, 3)
        out.append("%d%s" % (n, c))
        last = c
    if not out:
        return "*"
    return "".join(out)


def gen_gfa2_semantic(rng, nseg=None):
    """GFA2 document whose E lines are dovetails / containments (both sid orders, all orientation
    pairs) with CIGARs consistent with the intervals and rich in I/D; plus a few groups over them."""
    d = Gfa2Doc()
    n = nseg or rng.randint(2, 5)
    names = rng.sample(["a", "b", "c", "d", "ee1", "s9"], n)
    for s in names:
        L = rng.randint(8, 18)
        d.segments.append({"sid": s, "slen": L, "seq": rseq(rng, L) if rng.random() < 0.5 else "*", "tags": []})
    k = 0
    for _ in range(rng.randint(2, 2 * n + 1)):
        a, b = rng.choice(names), rng.choice(names)
        la, lb = d.slen(a), d.slen(b)
        oa, ob = rng.choice("+-"), rng.choice("+-")
        kind = rng.choice(["dov", "dov", "cont1", "cont2"])
        if kind == "dov":
            ra, rb = rng.randint(1, la - 1), rng.randint(1, lb - 1)
            # sfx-role of the first, pfx-role of the second (or the other way round)
            if rng.random() < 0.5:
                i1 = (la - ra, la) if oa == "+" else (0, ra)
                i2 = (0, rb) if ob == "+" else (lb - rb, lb)
            else:
                i1 = (0, ra) if oa == "+" else (la - ra, la)
                i2 = (lb - rb, lb) if ob == "+" else (0, rb)
        elif kind == "cont1":
            if a == b:
                continue
            rb = rng.randint(1, lb - 1)
            st = rng.randint(0, lb - rb)
            i1, i2 = (0, la), (st, st + rb)
        else:
            if a == b:
                continue
            ra = rng.randint(1, la - 1)
            st = rng.randint(0, la - ra)
            i1, i2 = (st, st + ra), (0, lb)
        k += 1
        d.edges.append({"eid": rng.choice(["*", "e%d" % k, "e%d" % k]), "s1": a, "o1": oa, "s2": b, "o2": ob,
                        "b1": pos2(i1[0], la), "e1": pos2(i1[1], la), "b2": pos2(i2[0], lb), "e2": pos2(i2[1], lb),
                        "aln": "*" if rng.random() < 0.15 else consistent_cigar(rng, i1[1] - i1[0], i2[1] - i2[0]),
                        "tags": []})
    named = [e["eid"] for e in d.edges if e["eid"] != "*"]
    if named and rng.random() < 0.5:
        d.ugroups.append({"uid": "u1", "items": [rng.choice(names + named) for _ in range(rng.randint(1, 3))], "tags": []})
    return d
