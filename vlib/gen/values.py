"""Seeded generators for tag values (text spellings and Python values) — DESIGN §4 G1/G6."""
import json
import string

DATATYPES = "AifZJHB"
PRINTABLE = "".join(chr(c) for c in range(0x21, 0x7f))
PRINTABLE_SP = " " + PRINTABLE


def tagname(rng, used=()):
    """custom tag name (lower-case first letter: never a predefined tag)."""
    for _ in range(50):
        n = rng.choice(string.ascii_lowercase) + rng.choice(string.ascii_letters + string.digits)
        if n not in used:
            return n
    raise RuntimeError("no tag name")


def _float_canon(rng):
    x = rng.choice([0.0, 1.5, -2.25, 1e-05, 123456.789, 1e+20, -0.001, 3.0, 2.5e-10,
                    rng.uniform(-1000, 1000), rng.random(), float(rng.randint(-50, 50))])
    return repr(float(x))


def _float_free(rng):
    return rng.choice(["1", "+1.5", "-.5", ".5", "1e5", "1E-3", "+0.0", "007.50", "5e+2", "-1e0",
                       "0.10", "12"])


def _json_value(rng, depth=0):
    k = rng.randint(0, 6 if depth < 2 else 3)
    if k == 0:
        return rng.randint(-100, 100)
    if k == 1:
        # (JSON escapes what is not printable ASCII: such strings are representable)
        return rng.choice(["x", "a b", "", "{}", "1:2", "q\"uote", "tab?", "M\u00fcller", "\u043a\u043b\u044e\u0447", "a\tb", "l1\nl2"])
    if k == 2:
        return rng.choice([True, False, None])
    if k == 3:
        return rng.choice([1.5, -0.25, 1e-07])
    if k in (4, 5):
        return [_json_value(rng, depth + 1) for _ in range(rng.randint(0, 3))]
    return {rng.choice(["a", "b", "k y", "1", "", "cl\u00e9"]): _json_value(rng, depth + 1)
            for _ in range(rng.randint(0, 3))}


def json_container(rng):
    v = _json_value(rng, 0)
    if not isinstance(v, (list, dict)):
        v = [v] if rng.random() < 0.5 else {"k": v}
    return v


def _b_canon(rng):
    """B array in the spelling gfapy writes: smallest subtype for the content."""
    if rng.random() < 0.3:
        return "f," + ",".join(_float_canon(rng) for _ in range(rng.randint(1, 4)))
    bound = rng.choice([(0, 255), (0, 65535), (0, 2**32 - 1), (-128, 127), (-32768, 32767),
                        (-2**31, 2**31 - 1)])
    n = rng.randint(1, 4)
    vals = [rng.choice([bound[0], bound[1], rng.randint(bound[0], bound[1])]) for _ in range(n)]
    return b_spelling(vals)


def b_subtype(vals):
    lo, hi = min(vals), max(vals)
    if lo < 0:
        for st, (a, b) in (("c", (-128, 127)), ("s", (-32768, 32767)), ("i", (-2**31, 2**31 - 1))):
            if a <= lo and hi <= b:
                return st
    else:
        for st, b in (("C", 255), ("S", 65535), ("I", 2**32 - 1)):
            if hi <= b:
                return st
    return None


def b_spelling(vals):
    return b_subtype(vals) + "," + ",".join(str(v) for v in vals)


def _b_free(rng):
    if rng.random() < 0.3:
        # (float elements in every spelling the f grammar allows)
        return "f," + ",".join(_float_free(rng) for _ in range(rng.randint(1, 4)))
    st = rng.choice("cCsSiI")
    lo, hi = {"c": (-128, 127), "C": (0, 255), "s": (-32768, 32767), "S": (0, 65535),
              "i": (-2**31, 2**31 - 1), "I": (0, 2**32 - 1)}[st]
    vals = [rng.choice([lo, hi, rng.randint(lo, hi), rng.randint(max(lo, -5), min(hi, 5))])
            for _ in range(rng.randint(1, 4))]
    sp = []
    for v in vals:
        s = str(v)
        if v >= 0 and rng.random() < 0.2:
            s = "+" + s
        sp.append(s)
    return st + "," + ",".join(sp)


def tag_value_text(rng, dt, canonical=True):
    """a VALID value string of datatype dt."""
    if dt == "A":
        return rng.choice(PRINTABLE)
    if dt == "i":
        v = rng.choice([0, 1, -1, 255, 256, -129, 2**31, 2**63, rng.randint(-10**6, 10**6)])
        if canonical or rng.random() < 0.5:
            return str(v)
        return rng.choice(["+%d" % abs(v), "00%d" % abs(v), "-0", "+0"])
    if dt == "f":
        return _float_canon(rng) if canonical else _float_free(rng)
    if dt == "Z":
        n = rng.randint(1, 10)
        return "".join(rng.choice(PRINTABLE_SP) for _ in range(n))
    if dt == "J":
        v = json_container(rng)
        if canonical:
            return json.dumps(v)
        return json.dumps(v, separators=(",", ":"))
    if dt == "H":
        n = rng.randint(1, 5)
        return "".join(rng.choice("0123456789ABCDEF") for _ in range(2 * n))
    if dt == "B":
        return _b_canon(rng) if canonical else _b_free(rng)
    raise ValueError(dt)


def random_tags(rng, n=None, canonical=True, used=(), datatypes=DATATYPES):
    """list of (name, dt, value) custom tags with distinct names."""
    if n is None:
        n = rng.choice([0, 0, 1, 1, 2, 3, 4])
    used = set(used)
    out = []
    for _ in range(n):
        name = tagname(rng, used)
        used.add(name)
        dt = rng.choice(datatypes)
        out.append((name, dt, tag_value_text(rng, dt, canonical)))
    return out


# python values for C20 -----------------------------------------------------------
def py_value(rng, kind):
    if kind == "int":
        return rng.choice([0, 1, -1, 127, 128, 255, 256, -128, -129, 32767, 32768, 65535, 65536,
                           2**31 - 1, 2**31, 2**32 - 1, 2**32, -2**31, -2**31 - 1, 2**64,
                           rng.randint(-10**9, 10**9)])
    if kind == "float":
        return rng.choice([0.0, -0.0, 1.5, 1e-300, 1e300, 1e16, 1e-5, 0.1, 2.5e-7, 123456789.125,
                           rng.uniform(-1e6, 1e6), rng.random()])
    if kind == "str":
        n = rng.randint(1, 12)
        return "".join(rng.choice(PRINTABLE_SP) for _ in range(n))
    if kind == "char":
        return rng.choice(PRINTABLE)
    if kind == "json":
        return json_container(rng)
    if kind == "intarray":
        b = rng.choice([127, 128, 255, 256, 32767, 32768, 65535, 65536, 2**31 - 1, 2**31,
                        2**32 - 1])
        neg = rng.random() < 0.5
        n = rng.randint(1, 5)
        vals = [rng.randint(-b - 1 if neg else 0, b) for _ in range(n)]
        vals[rng.randrange(n)] = b
        if neg:
            vals[rng.randrange(n)] = rng.choice([-1, -b - 1, -b])
        return vals
    if kind == "floatarray":
        return [rng.choice([0.5, -1.25, 1e-5, 3.0, rng.uniform(-10, 10), 1e16, -1e20, 1.5e300, 2.5e-7, 1e-300,
                            -0.0, 123456789.125, float(rng.randint(-5, 5))]) for _ in range(rng.randint(1, 4))]
    if kind == "bytes":
        return [rng.randint(0, 255) for _ in range(rng.randint(1, 6))]
    raise ValueError(kind)
