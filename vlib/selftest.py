"""setup-time self-test of monitors and models (DESIGN §7.5)."""
import sys


def main():
    from vlib.spec import grammar as S
    ok = True
    table = [("i", "12", S.VALID), ("i", "1_0", S.INVALID), ("i", " 5", S.INVALID), ("f", "inf", S.INVALID),
             ("f", "1e5", S.VALID), ("H", "1a", S.INVALID), ("H", "1A", S.VALID), ("H", "1AB", S.INVALID),
             ("J", "{", S.INVALID), ("J", "[1]", S.VALID), ("J", "1", S.UNSPEC), ("B", "c,1,2", S.VALID),
             ("B", "c,128", S.INVALID), ("B", "C,-1", S.INVALID), ("Z", "a b", S.VALID), ("Z", "a\n", S.INVALID),
             ("A", "ab", S.INVALID)]
    for dt, v, want in table:
        got = S.tag_value_verdict(dt, v)[0]
        if got != want:
            print("selftest: tag_value_verdict(%r,%r)=%s want %s" % (dt, v, got, want))
            ok = False
    lines = [("S\tA\t*", None, S.VALID), ("S\tA\t10\t*", None, S.VALID), ("S\tA", None, S.INVALID),
             ("L\tA\t+\tB\t-\t3M1D", None, S.VALID), ("L\tA\t+\tB\t-\t3M1D", "gfa2", S.INVALID),
             ("E\t*\ta+\tb-\t0\t5\t3\t8$\t*", None, S.VALID), ("E\t*\ta+\tb-\t6\t5\t3\t8$\t*", None, S.INVALID),
             ("E\t*\ta+\tb-\t$\t5\t3\t8$\t*", None, S.INVALID), ("P\tp\ta+,b-\t*", None, S.VALID),
             ("P\tp\ta+,b-\t1M,2M,3M", None, S.INVALID), ("S\tA\tACGT\tLN:i:5", None, S.INVALID),
             ("H\tVN:Z:1.0", None, S.VALID), ("", None, S.INVALID), ("S\tA\t*\txx:i:1\txx:i:2", None, S.INVALID)]
    for l, v, want in lines:
        got = S.recognise_line(l, v)[0]
        if got != want:
            print("selftest: recognise_line(%r,%r)=%s want %s" % (l, v, got, want))
            ok = False
    if S.cigar_complement("2M1D3M") != "3M1I2M":
        print("selftest: cigar_complement")
        ok = False
    try:
        import icontract  # noqa
    except Exception as e:
        print("selftest: icontract not importable (%s): hand-written contract wrappers will be used" % e)
    print("selftest", "ok" if ok else "FAILED")
    return 0 if ok else 1


if __name__ == "__main__":
    sys.exit(main())
