"""M5 purity guard (frame conditions): run a read-only query twice and require that the
receiver, its Gfa and the argument objects are observably unchanged and that both answers
agree."""
import random
import gfapy
from . import obs as O
from .client import call


def canon(v, depth=0):
    """order-preserving canonical rendering of a query result."""
    if depth > 6:
        return "..."
    if isinstance(v, gfapy.Line):
        return ("line", O.line_key(v), O.safe_str(v))
    if isinstance(v, gfapy.OrientedLine):
        l = v.line
        return ("oline", O.line_key(l) if isinstance(l, gfapy.Line) else str(l), v.orient)
    if isinstance(v, gfapy.SegmentEnd):
        return ("send", str(v))
    if isinstance(v, (list, tuple)):
        return tuple(canon(x, depth + 1) for x in v)
    if isinstance(v, set):
        return ("set", tuple(sorted((canon(x, depth + 1) for x in v), key=repr)))
    if isinstance(v, dict):
        return ("dict", tuple(sorted(((repr(k), canon(x, depth + 1)) for k, x in v.items()))))
    if isinstance(v, gfapy.Gfa):
        return ("gfa", O.safe_str(v))
    if isinstance(v, float) and v != v:
        return "nan"
    try:
        return (type(v).__name__, str(v), repr(v) if not hasattr(v, "__dict__") else "")
    except Exception as e:
        return ("unrenderable", type(e).__name__)


class Env:
    def __init__(self, g, seed):
        self.g = g
        self.seed = seed
        self.rng = random.Random(seed)
        self.memo = {}          # argument objects of the caller, the same for both executions

    def reset(self):
        self.rng = random.Random(self.seed)


def canon_strings(o, fn):
    """apply fn to every string that is a written line (contains a tab), keys included."""
    if isinstance(o, dict):
        return {(fn(k) if isinstance(k, str) and "\t" in k else k): canon_strings(v, fn) for k, v in o.items()}
    if isinstance(o, (list, tuple)):
        out = [canon_strings(v, fn) for v in o]
        try:
            return sorted(out, key=repr) if isinstance(o, list) else tuple(out)
        except Exception:
            return out
    if isinstance(o, str) and "\t" in o:
        return fn(o)
    return o


def fingerprint(g, extra=(), textcanon=None):
    fp = {"gfa": O.obs(g)}
    fp["extra"] = [(O.safe_str(x), repr(x) if textcanon is None else "") if not isinstance(x, gfapy.Line)
                   else O.obs_line(x) for x in extra]
    if textcanon is not None:
        fp = canon_strings(fp, textcanon)
    return fp


def guarded_query(ctx, g, name, fn, obj, seed, extra=(), textcanon=None, f0=None):
    """returns list of (key, detail) violations (for C10).  f0: fingerprint already taken for
    exactly this (g, extra) after the previous call (saves one observation)."""
    env = Env(g, seed)
    if f0 is None:
        f0 = fingerprint(g, extra, textcanon)
    env.reset()
    r1 = call(ctx, name, fn, obj, env)
    f1 = fingerprint(g, extra, textcanon)
    env.reset()
    r2 = call(ctx, name, fn, obj, env)
    f2 = fingerprint(g, extra, textcanon)
    bad = []
    if f0 != f1 or f1 != f2:
        d = O.diff_obs(f0, f1) or O.diff_obs(f1, f2)
        bad.append(("query-modifies/%s" % name, "%s changed the observable state:\n  %s" % (name, "\n  ".join(d[:4]))))
    a = ("ok", canon(r1.value)) if r1.ok else ("raise", r1.cls())
    b = ("ok", canon(r2.value)) if r2.ok else ("raise", r2.cls())
    if a != b:
        bad.append(("second-answer-differs/%s" % name, "%s: first %r, second %r" % (name, a, b)))
    return bad, r1
