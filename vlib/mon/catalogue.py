"""Catalogue of read-only public queries (DESIGN Appendix A) used by the purity guard (C10).

Each entry: (name, kind, fn(obj, env)) -> thunk result.  env gives access to the Gfa, a
random generator and helper picks.  Kinds: gfa, line (any), S, edge (L/C/E), L, C, E, P, O, U,
F, G, aln (alignment value), fields (line + field name)."""
import gfapy


def _other_line(x, env):
    ls = [l for l in env.g.lines if l.record_type == x.record_type] or env.g.lines
    return env.rng.choice(ls)


def _a_segment(env):
    s = env.g.segments
    return env.rng.choice(s) if s else None


def _fieldname(x, env):
    names = list(x.positional_fieldnames) + list(x.tagnames) + ["xx", "name", "LN", "nosuch"]
    return env.rng.choice(names)


Q = []


def q(name, kind):
    def deco(f):
        Q.append((name, kind, f))
        return f
    return deco


# ------------------------------------------------------------------ any line
q("str", "line")(lambda x, e: str(x))
q("repr", "line")(lambda x, e: repr(x))
q("to_str", "line")(lambda x, e: x.to_str() if x.record_type != "#" else str(x))
q("to_list", "line")(lambda x, e: x.to_list())
q("field_to_s", "line")(lambda x, e: x.field_to_s(_fieldname(x, e), e.rng.random() < 0.3))
q("get", "line")(lambda x, e: x.get(_fieldname(x, e)))
q("try_get", "line")(lambda x, e: x.try_get(_fieldname(x, e)))
q("attribute_read", "line")(lambda x, e: getattr(x, e.rng.choice(list(x.positional_fieldnames) + list(x.tagnames) or ["xx"])))
q("tagnames", "line")(lambda x, e: (x.tagnames, x.positional_fieldnames))
q("meta", "line")(lambda x, e: (x.record_type, x.version, x.dialect, x.virtual, x.gfa is e.g, x.is_connected()))
q("all_references", "line")(lambda x, e: x.all_references)
q("refstr", "line")(lambda x, e: x.refstr())
q("get_datatype", "line")(lambda x, e: x.get_datatype(_fieldname(x, e)))
q("validate", "line")(lambda x, e: x.validate())
q("validate_field", "line")(lambda x, e: x.validate_field(_fieldname(x, e)))
q("clone", "line")(lambda x, e: str(x.clone()))
q("eq", "line")(lambda x, e: (x == _other_line(x, e), x == x, x == str(x.get("name")) if x.get("name") else None))
q("diff", "line")(lambda x, e: x.diff(_other_line(x, e)))
q("diffscript", "line")(lambda x, e: x.diffscript(_other_line(x, e), "x"))
q("hash", "line")(lambda x, e: hash(x) if x.record_type in ("S", "P") else None)

# ------------------------------------------------------------------ segments
for _n in ("dovetails", "dovetails_L", "dovetails_R", "gaps", "gaps_L", "gaps_R", "containments",
           "edges_to_contained", "edges_to_containers", "internals", "fragments", "paths", "sets", "edges",
           "neighbours", "neighbours_L", "neighbours_R", "containers", "contained", "length"):
    q(_n, "S")(lambda x, e, _n=_n: getattr(x, _n))
q("dovetails_of_end", "S")(lambda x, e: x.dovetails_of_end(e.rng.choice("LR")))
q("gaps_of_end", "S")(lambda x, e: x.gaps_of_end(e.rng.choice("LR")))
q("neighbours_of_end", "S")(lambda x, e: x.neighbours_of_end(e.rng.choice("LR")))
q("relations_to", "S")(lambda x, e: x.relations_to(_a_segment(e), e.rng.choice(["edges", "dovetails", "containments"])))
q("relations_to_name", "S")(lambda x, e: x.relations_to(_a_segment(e).name))
q("oriented_relations", "S")(lambda x, e: x.oriented_relations(e.rng.choice("+-"), gfapy.OrientedLine(_a_segment(e), e.rng.choice("+-")), "dovetails"))
q("end_relations", "S")(lambda x, e: x.end_relations(e.rng.choice("LR"), gfapy.SegmentEnd(_a_segment(e), e.rng.choice("LR")), "dovetails"))
q("try_get_length", "S")(lambda x, e: x.try_get_length())
q("coverage", "S")(lambda x, e: x.coverage())
q("try_get_coverage", "S")(lambda x, e: x.try_get_coverage())
q("str_without_sequence", "S")(lambda x, e: x.__str__(without_sequence=True))
q("connectivity", "S")(lambda x, e: x._connectivity() if False else (len(x.dovetails_L), len(x.dovetails_R)))

# --------------------------------------------------------------------- edges
for _n in ("from_segment", "to_segment", "from_orient", "to_orient", "from_name", "to_name", "from_end", "to_end",
           "oriented_from", "oriented_to", "overlap", "alignment", "eid", "sid1", "sid2", "beg1", "end1", "beg2",
           "end2"):
    q(_n, "edge")(lambda x, e, _n=_n: getattr(x, _n))
q("is_circular", "edge")(lambda x, e: (x.is_circular(), x.is_circular_same_end()))
q("alignment_type", "edge")(lambda x, e: (x.is_dovetail(), x.is_containment(), x.is_internal()))
q("other", "edge")(lambda x, e: x.other(e.rng.choice([x.from_segment, x.to_segment])))
q("other_end", "edge")(lambda x, e: x.other_end(e.rng.choice([x.from_end, x.to_end])))
q("other_end_tolerant", "edge")(lambda x, e: x.other_end(gfapy.SegmentEnd(_a_segment(e), "L"), True))
q("other_oriented_segment", "edge")(lambda x, e: x.other_oriented_segment(e.rng.choice([x.sid1, x.sid2])))
q("pos", "C")(lambda x, e: (x.pos, x.rpos))
q("pos", "E")(lambda x, e: x.pos)
q("coords", "L")(lambda x, e: (x.from_coords, x.to_coords))
q("coords", "C")(lambda x, e: (x.from_coords, x.to_coords))
q("validate_positions", "E")(lambda x, e: x.validate_positions())
q("validate_positions", "F")(lambda x, e: x.validate_positions())
q("paths", "L")(lambda x, e: x.paths)
q("paths_sets", "E")(lambda x, e: (x.paths, x.sets))

# --------------------------------------------------------------------- links
q("complement", "L")(lambda x, e: str(x.complement()))
q("complement_twice", "L")(lambda x, e: str(x.complement().complement()))


def _other_link(x, e):
    ls = e.g.dovetails
    return e.rng.choice(ls) if ls else x


q("is_complement", "L")(lambda x, e: x.is_complement(_other_link(x, e)))
q("is_same", "L")(lambda x, e: x.is_same(_other_link(x, e)))
q("is_eql", "L")(lambda x, e: x.is_eql(_other_link(x, e)))
q("is_eql_own_complement", "L")(lambda x, e: (x.is_eql(x.complement()), x.is_complement(x.complement())))
q("are_tags_eql", "L")(lambda x, e: x.are_tags_eql(_other_link(x, e)))
q("is_compatible", "L")(lambda x, e: (lambda o: x.is_compatible(o.oriented_from, o.oriented_to, o.overlap, e.rng.random() < 0.5))(_other_link(x, e)))
q("is_compatible_inverted", "L")(lambda x, e: x.is_compatible(x.oriented_to.inverted(), x.oriented_from.inverted(), x.overlap.complement(), True))
q("is_compatible_direct", "L")(lambda x, e: (lambda o: x.is_compatible_direct(o.oriented_from, o.oriented_to, o.overlap))(_other_link(x, e)))
q("is_compatible_complement", "L")(lambda x, e: (lambda o: x.is_compatible_complement(o.oriented_from, o.oriented_to, o.overlap))(_other_link(x, e)))
q("is_canonical", "L")(lambda x, e: x.is_canonical())
q("is_canonical", "C")(lambda x, e: x.is_canonical())

# -------------------------------------------------------------------- groups
q("links", "P")(lambda x, e: x.links)
q("captured", "P")(lambda x, e: (x.captured_path, x.captured_segments, x.captured_edges))
q("topology", "P")(lambda x, e: (x.is_circular(), x.is_linear()))
q("captured_path", "O")(lambda x, e: x.captured_path)
q("captured_segments", "O")(lambda x, e: x.captured_segments)
q("captured_edges", "O")(lambda x, e: x.captured_edges)
q("paths_sets", "O")(lambda x, e: (x.paths, x.sets, x.items))
q("induced_set", "U")(lambda x, e: x.induced_set)
q("induced_segments_set", "U")(lambda x, e: x.induced_segments_set)
q("induced_edges_set", "U")(lambda x, e: x.induced_edges_set)
q("sets_items", "U")(lambda x, e: (x.sets, x.items))
q("gap_fields", "G")(lambda x, e: (x.sid1, x.sid2, x.disp, x.var, x.gid))
q("fragment_fields", "F")(lambda x, e: (x.sid, x.external, x.s_beg, x.s_end, x.f_beg, x.f_end, x.alignment))

# --------------------------------------------------------------- alignment values
q("aln_complement", "aln")(lambda a, e: str(a.complement()))
q("aln_complement_twice", "aln")(lambda a, e: str(a.complement().complement()))
q("aln_lengths", "aln")(lambda a, e: (a.length_on_reference(), a.length_on_query()) if hasattr(a, "length_on_reference") else None)
q("aln_validate", "aln")(lambda a, e: a.validate())
q("aln_str", "aln")(lambda a, e: (str(a), repr(a), len(a)))

# ----------------------------------------------------------------------- Gfa
for _n in ("lines", "comments", "headers", "header", "segments", "edges", "dovetails", "containments", "paths",
           "sets", "gaps", "fragments", "custom_records", "custom_record_keys", "names", "segment_names",
           "edge_names", "path_names", "set_names", "gap_names", "external_names", "version", "vlevel",
           "dialect", "n_input_header_lines", "n_dovetails", "n_containments", "n_internals", "n_dead_ends",
           "stable_sequence_names"):
    q(_n, "gfa")(lambda g, e, _n=_n: getattr(g, _n))
q("str", "gfa")(lambda g, e: str(g))
q("validate", "gfa")(lambda g, e: g.validate())
q("is_rgfa", "gfa")(lambda g, e: g.is_rgfa())


def _a_name(g, e):
    ns = list(g.names) + ["nosuch", "*", ""]
    return e.rng.choice(ns)


q("line", "gfa")(lambda g, e: g.line(_a_name(g, e)))
q("try_get_line", "gfa")(lambda g, e: g.try_get_line(_a_name(g, e)))
q("segment", "gfa")(lambda g, e: g.segment(_a_name(g, e)))
q("try_get_segment", "gfa")(lambda g, e: g.try_get_segment(_a_name(g, e)))
q("select_dict", "gfa")(lambda g, e: g.select({"record_type": e.rng.choice(["S", "L", "E", "P", "O", "U", "G", "F", "C"])}))
q("select_name", "gfa")(lambda g, e: g.select({"name": _a_name(g, e)}))
q("select_line", "gfa")(lambda g, e: g.select(e.rng.choice(g.lines)))


def _select_same_dict(g, e):
    """the caller keeps its query dictionary and uses it again: it is the caller's object."""
    if "criteria" not in e.memo:
        crit = {"record_type": e.rng.choice(["S", "L", "E", "P", "O", "U", "G", "F", "C"])}
        if e.rng.random() < 0.5:
            crit["name"] = _a_name(g, e)
        e.memo["criteria"] = crit
    crit = e.memo["criteria"]
    before = sorted(crit.items())
    r = g.select(crit)
    return (before, r, sorted(crit.items()))


q("select_same_dict", "gfa")(_select_same_dict)


def _select_by_field(g, e):
    """search by the real name of a field of one of the lines (sid, eid, from_segment, ...)."""
    x = e.rng.choice(g.lines)
    fns = [f for f in list(x.positional_fieldnames) + list(x.tagnames) if isinstance(x.get(f), (str, int))]
    if not fns:
        return None
    f = e.rng.choice(fns)
    return g.select({f: x.get(f)})


q("select_field", "gfa")(_select_by_field)
q("fragments_for_external", "gfa")(lambda g, e: g.fragments_for_external(e.rng.choice(list(g.external_names) + ["nosuch"])))
q("custom_records_of_type", "gfa")(lambda g, e: g.custom_records_of_type(e.rng.choice(list(g.custom_record_keys) + ["X"])))
q("connected_components", "gfa")(lambda g, e: g.connected_components())
q("segment_connected_component", "gfa")(lambda g, e: g.segment_connected_component(_a_segment(e)))
q("segment_connected_component_name", "gfa")(lambda g, e: g.segment_connected_component(_a_segment(e).name))
q("is_cut_segment", "gfa")(lambda g, e: g.is_cut_segment(_a_segment(e)))
q("is_cut_link", "gfa")(lambda g, e: g.is_cut_link(e.rng.choice(g.dovetails)))
q("linear_path", "gfa")(lambda g, e: g.linear_path(_a_segment(e).name))
q("linear_paths", "gfa")(lambda g, e: g.linear_paths())
q("linear_paths_redundant", "gfa")(lambda g, e: g.linear_paths(True))

KINDS_OF = {
    "S": ["line", "S"], "L": ["line", "edge", "L"], "C": ["line", "edge", "C"], "E": ["line", "edge", "E"],
    "P": ["line", "P"], "O": ["line", "O"], "U": ["line", "U"], "G": ["line", "G"], "F": ["line", "F"],
    "H": ["line"], "#": ["line"],
}


def queries_for(rt):
    kinds = KINDS_OF.get(rt, ["line"])
    return [(n, k, f) for (n, k, f) in Q if k in kinds]


def names():
    return sorted(set("%s.%s" % (k, n) for n, k, f in Q))
