"""M4 invariants evaluated at quiescent points (outermost return of a mutating call).

closed_symmetric(g)  -> list of (key, detail)   [C02]
unique_names(g)      -> list of (key, detail)   [C09]
Only the public API is used: lines, gfa, is_connected, reference fields, links,
all_references, line(), segment(), names."""
import gfapy
from .obs import REF_FIELDS, line_key, safe_str, is_line


def _rt(x):
    """record type of a line for violation keys (placeholders of unknown type have type newline)."""
    rt = x.record_type
    return "placeholder" if rt == "\n" else rt


def forward_targets(x):
    """list of (target, fieldname) for every Line object referenced by x's reference fields;
    strings found in reference fields are returned as (str, field)."""
    out = []
    rt = x.record_type
    for f in REF_FIELDS.get(rt, []):
        v = x.get(f)
        _collect(v, f, out)
    if rt == "P":
        for ol in x.links:
            _collect(ol, "links", out)
    return out


def _collect(v, f, out):
    if isinstance(v, list):
        for e in v:
            _collect(e, f, out)
    elif isinstance(v, gfapy.OrientedLine):
        out.append((v.line, f))
    elif is_line(v):
        out.append((v, f))
    elif v is None:
        pass
    else:
        out.append((v, f))


def back_entries(t):
    """lines holding a reference to t, per the public all_references view
    (a P line's own `links` entries are OrientedLine objects: forward refs, skipped)."""
    return [e for e in t.all_references if is_line(e)]


def closed_symmetric(g):
    bad = []
    lines = g.lines
    ids = {}
    for l in lines:
        ids[id(l)] = l
    if g.header.gfa is not g:
        bad.append(("owner/header", "header does not report the Gfa as owner"))
    fwd = {}    # (id(x), id(t)) -> count
    for x in lines:
        rt = x.record_type
        if rt == "H":
            # the H lines which a Gfa lists are per-tag copies of its one header line, made on the
            # fly: they take part in no reference, but they are listed lines like the others
            if x.gfa is not g:
                bad.append(("owner/H", "listed header line reports no owner (gfa is %r): %s" % (x.gfa, safe_str(x))))
            continue
        if x.gfa is not g:
            bad.append(("owner/%s" % rt, "listed line reports another owner: %s" % safe_str(x)))
            continue
        if not x.is_connected():
            bad.append(("listed-disconnected/%s" % rt, safe_str(x)))
            continue
        try:
            fts = forward_targets(x)
        except Exception as e:
            bad.append(("unreadable-refs/%s/%s" % (rt, type(e).__name__), safe_str(x)))
            continue
        for t, f in fts:
            if not is_line(t):
                bad.append(("string-in-reference/%s.%s" % (rt, f),
                            "connected line holds %r in %s: %s" % (t, f, safe_str(x))))
                continue
            trt = t.record_type
            if id(t) not in ids:
                what = "disconnected" if not t.is_connected() else "unlisted"
                bad.append(("dangling-reference/%s.%s->%s/%s" % (rt, f, trt, what),
                            "%s references %s line %s" % (safe_str(x), what, safe_str(t))))
                continue
            if t.gfa is not g:
                bad.append(("foreign-reference/%s.%s->%s" % (rt, f, trt), safe_str(x)))
            fwd[(id(x), id(t))] = fwd.get((id(x), id(t)), 0) + 1
    bwd = {}
    for t in lines:
        if t.record_type == "H":
            continue
        try:
            be = back_entries(t)
        except Exception as e:
            bad.append(("unreadable-backrefs/%s/%s" % (_rt(t), type(e).__name__), safe_str(t)))
            continue
        for y in be:
            if id(y) not in ids:
                what = "disconnected" if not y.is_connected() else "unlisted"
                bad.append(("dangling-backreference/%s<-%s/%s" % (_rt(t), _rt(y), what),
                            "%s keeps a back-reference to %s line %s" % (safe_str(t), what, safe_str(y))))
                continue
            bwd[(id(y), id(t))] = bwd.get((id(y), id(t)), 0) + 1
    for k in set(fwd) | set(bwd):
        a, b = fwd.get(k, 0), bwd.get(k, 0)
        if a != b:
            x, t = ids[k[0]], ids[k[1]]
            bad.append(("asymmetric/%s->%s/%s" % (_rt(x), _rt(t),
                                                 "missing-backref" if a > b else "extra-backref"),
                        "%d reference(s) from %s to %s but %d back-reference(s)"
                        % (a, safe_str(x), safe_str(t), b)))
    # lookup under the current identifier
    for x in lines:
        rt = x.record_type
        if rt in ("S", "P", "E", "G", "O", "U", "\n"):
            try:
                n = x.name
            except Exception:
                continue
            if gfapy.is_placeholder(n) or not isinstance(n, str):
                continue
            found = g.line(n)
            if found is not x:
                bad.append(("lookup/%s" % ("placeholder-of-unknown-type" if rt == "\n" else rt), "line(%r) returns %s instead of %s"
                            % (n, safe_str(found) if found is not None else None, safe_str(x))))
            if rt == "S" and g.segment(n) is not x:
                bad.append(("lookup-segment", "segment(%r) is not the listed segment" % n))
    return bad


def namespace(g):
    """identified lines of g: list of (name, line)."""
    out = []
    for x in g.lines:
        rt = x.record_type
        n = None
        if rt in ("S", "P", "E", "G", "O", "U"):
            n = x.name
        elif rt in ("L", "C"):
            n = x.get("ID")
        if n is None or gfapy.is_placeholder(n) or not isinstance(n, str):
            continue
        out.append((n, x))
    return out


def unique_names(g):
    bad = []
    seen = {}
    for n, x in namespace(g):
        if n in seen and seen[n] is not x:
            a, b = sorted([seen[n].record_type, x.record_type])
            bad.append(("duplicate-identifier/%s+%s" % (a, b),
                        "identifier %r carried by %s and %s" % (n, safe_str(seen[n]), safe_str(x))))
        seen[n] = x
    names = None
    try:
        names = list(g.names)
    except Exception as e:
        bad.append(("names-unreadable/" + type(e).__name__, ""))
    if names is not None:
        # (a segment named '*', accepted only at validation level 0, is stored under an internal
        #  key: not an identifier, outside the claim)
        names = [n for n in names if isinstance(n, str)]
        if len(set(names)) != len(names):
            dup = sorted(set(n for n in names if names.count(n) > 1))
            bad.append(("names-duplicates", "gfa.names lists %r more than once" % dup))
        want = set(seen)
        have = set(names)
        if want - have:
            rts = sorted(set(seen[n].record_type for n in want - have))
            bad.append(("names-missing/%s" % "+".join(rts),
                        "identified lines not in gfa.names: %r" % sorted(want - have)))
        if have - want:
            bad.append(("names-extra", "gfa.names lists %r, carried by no listed line" % sorted(have - want)))
    for n, x in seen.items():
        found = g.line(n)
        if found is not x:
            bad.append(("lookup/%s" % ("placeholder-of-unknown-type" if x.record_type == "\n" else x.record_type),
                        "line(%r) returns %s, not the line that carries the identifier (%s)"
                        % (n, safe_str(found) if found is not None else None, safe_str(x))))
    return bad
