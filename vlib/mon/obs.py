"""M3: observation function obs(g) — a snapshot of everything the properties call
observable, read through the public API only."""
import gfapy

# documented reference fields per record type (doc/tutorial/references.rst)
REF_FIELDS = {
    "L": ["from_segment", "to_segment"],
    "C": ["from_segment", "to_segment"],
    "P": ["segment_names"],
    "E": ["sid1", "sid2"],
    "G": ["sid1", "sid2"],
    "F": ["sid"],
    "O": ["items"],
    "U": ["items"],
}
# documented back-reference collections per record type
BACKREF = {
    "S": ["dovetails_L", "dovetails_R", "edges_to_contained", "edges_to_containers", "internals",
          "gaps_L", "gaps_R", "fragments", "paths", "sets"],
    "L": ["paths"],
    "E": ["paths", "sets"],
    "O": ["paths", "sets"],
    "U": ["sets"],
    "\n": ["paths", "sets"],
}


def is_line(x):
    return isinstance(x, gfapy.Line)


def safe_str(x):
    try:
        return str(x)
    except Exception as e:   # at vlevel>=2 writing may legitimately raise
        return "unwritable:" + type(e).__name__


def line_key(x):
    """identifier-based key of a line (record type + name), else its written form."""
    try:
        rt = x.record_type
    except Exception:
        rt = "?"
    name = None
    try:
        if rt in ("S", "P", "E", "G", "O", "U", "\n"):
            name = x.name
        elif rt in ("L", "C"):
            name = x.get("ID")
    except Exception:
        name = None
    if name is not None and not gfapy.is_placeholder(name) and isinstance(name, str):
        return rt + ":" + name
    return rt + "=" + safe_str(x)


def _target_key(l, g):
    """key of a line which a reference field points to; marked when the line is a placeholder, and
    when it is not the line which the Gfa holds under that identifier (a replaced object)."""
    k = line_key(l)
    try:
        if l.virtual:
            k += "(virtual)"
        if g is not None and l.record_type in ("S", "P", "E", "G", "O", "U", "\n"):
            n = l.name
            if isinstance(n, str) and not gfapy.is_placeholder(n) and g.line(n) is not l:
                k += "(stale)"
    except Exception:
        pass
    return k


def target_name(v, g=None):
    """render a reference-field value (Line / OrientedLine / str / list) as identifiers."""
    if isinstance(v, list):
        return [target_name(e, g) for e in v]
    if isinstance(v, gfapy.OrientedLine):
        l = v.line
        n = _target_key(l, g) if is_line(l) else "str:" + str(l)
        return (n, v.orient)
    if is_line(v):
        return _target_key(v, g)
    return "str:" + str(v)


def _link_flag(ol, path_overlap=None):
    """(link key, direction flag) of an entry of path.links.  For a link joining a segment end to
    itself (hairpin) both directions visit the same oriented segments and the flag only selects the
    spelling of the overlap: it is part of the observation only when the path spells that overlap and
    the spelling tells the two directions apart (DESIGN 3.1)."""
    n, o = target_name(ol)
    try:
        l = ol.line
        if l.from_segment is l.to_segment and l.from_orient != l.to_orient:
            decided = False
            if path_overlap is not None and not gfapy.is_placeholder(path_overlap) and \
                    not l.virtual and not gfapy.is_placeholder(l.overlap):
                a, b = str(l.overlap), str(l.overlap.complement())
                decided = a != b and str(path_overlap) in (a, b)
            if not decided:
                o = "+/-"
    except Exception:
        pass
    return (n, o)


def _coll(x, name):
    try:
        v = getattr(x, name)
    except Exception as e:
        return "unobservable:" + type(e).__name__
    out = []
    for e in v:
        if isinstance(e, gfapy.OrientedLine):
            out.append(repr(target_name(e)))
        elif is_line(e):
            out.append(line_key(e))
        else:
            out.append(repr(e))
    return sorted(out)


def obs_line(x, g=None):
    rt = x.record_type
    d = {"text": safe_str(x), "virtual": bool(x.virtual), "connected": x.is_connected()}
    if g is not None:
        d["owner_ok"] = x.gfa is g
    refs = {}
    for f in REF_FIELDS.get(rt, []):
        try:
            refs[f] = target_name(x.get(f), g)
        except Exception as e:
            refs[f] = "unobservable:" + type(e).__name__
    if rt == "P":
        try:
            lks = list(x.links)
            try:
                ovs = list(x.overlaps)
            except Exception:
                ovs = []
            if len(ovs) != len(lks) and len(ovs) != len(lks) + 0:
                ovs = [None] * len(lks)
            refs["links"] = [_link_flag(ol, ovs[i] if i < len(ovs) and len(ovs) >= len(lks) else None)
                             for i, ol in enumerate(lks)]
        except Exception as e:
            refs["links"] = "unobservable:" + type(e).__name__
    d["refs"] = refs
    back = {}
    for c in BACKREF.get(rt, []):
        back[c] = _coll(x, c)
    try:
        ar = x.all_references
        back["all"] = sorted(line_key(e) for e in ar if is_line(e))
    except Exception as e:
        back["all"] = "unobservable:" + type(e).__name__
    d["back"] = back
    return d


def obs(g, with_lines=True):
    """full public observation of a Gfa (JSON-able, order-normalised)."""
    o = {"version": g.version}
    lines = g.lines
    o["text"] = sorted(safe_str(l) for l in lines)
    for n in ("names", "segment_names", "edge_names", "path_names", "set_names", "gap_names",
              "external_names"):
        try:
            o[n] = sorted(str(k) for k in getattr(g, n))
        except Exception as e:
            o[n] = "unobservable:" + type(e).__name__
    try:
        o["n_input_header_lines"] = g.n_input_header_lines
    except Exception as e:
        o["n_input_header_lines"] = "unobservable:" + type(e).__name__
    # the values of the header tags as the API returns them (a tag defined on several H lines is
    # a gfapy.FieldArray, a tag defined once is the value itself)
    hv = {}
    try:
        h = g.header
        for t in h.tagnames:
            try:
                v = h.get(t)
                # (the values of a tag defined on several H lines: as a multiset, their order is
                #  the arrival order of the lines)
                hv[t] = "%s:%s" % (type(v).__name__, "\t".join(sorted(h.field_to_s(t, True).split("\t"))))
            except Exception as e:
                hv[t] = "unobservable:" + type(e).__name__
    except Exception as e:
        hv = "unobservable:" + type(e).__name__
    o["header_values"] = hv
    if with_lines:
        per = {}
        for l in lines:
            if l.record_type == "H":
                continue
            k = line_key(l)
            i = 0
            kk = k
            while kk in per:
                i += 1
                kk = "%s#%d" % (k, i)
            per[kk] = obs_line(l, g)
        o["lines"] = per
    return o


def diff_obs(a, b, path=""):
    """first few differing paths between two observations (for witnesses)."""
    out = []
    if type(a) != type(b):
        return ["%s: %r != %r" % (path, a, b)]
    if isinstance(a, dict):
        for k in sorted(set(a) | set(b), key=repr):
            if k not in a:
                out.append("%s/%s: missing before; after=%r" % (path, k, b[k]))
            elif k not in b:
                out.append("%s/%s: before=%r; missing after" % (path, k, a[k]))
            else:
                out += diff_obs(a[k], b[k], path + "/" + str(k))
            if len(out) > 6:
                break
        return out
    if a != b:
        return ["%s: %r != %r" % (path, a, b)]
    return []
