"""M1/M2: client-boundary call recorder and escaping-exception classifier."""
import os
import traceback
import gfapy
from .sysmon import StepBudgetExceeded

_ROOT = os.path.dirname(os.path.realpath(gfapy.__file__)) + os.sep
_VERIF = os.path.realpath(os.path.join(os.path.dirname(__file__), "..", "..")) + os.sep


def origin(exc):
    """innermost frame inside gfapy/ from which exc propagated: 'file.py:function'."""
    # exceptions re-wrapped with field context (raise err.__class__(...) from err): the
    # mechanism is where the root cause was raised
    seen = 0
    while exc.__cause__ is not None and seen < 10:
        exc = exc.__cause__
        seen += 1
    tb = exc.__traceback__
    best = None
    while tb is not None:
        fn = os.path.realpath(tb.tb_frame.f_code.co_filename)
        if fn.startswith(_ROOT):
            best = "%s:%s" % (fn[len(_ROOT):], tb.tb_frame.f_code.co_name)
        tb = tb.tb_next
    return best


def raised_in_harness(exc):
    """True if the innermost frame of the traceback is harness code (a monitor wrapper
    failing), i.e. the exception is ours, not gfapy's."""
    tb = exc.__traceback__
    last = None
    while tb is not None:
        last = tb
        tb = tb.tb_next
    if last is None:
        return False
    fn = os.path.realpath(last.tb_frame.f_code.co_filename)
    return fn.startswith(_VERIF)


class Outcome:
    __slots__ = ("kind", "value", "exc")

    def __init__(self, kind, value=None, exc=None):
        self.kind = kind      # "ok" | "gfapy" | "foreign"
        self.value = value
        self.exc = exc

    @property
    def ok(self):
        return self.kind == "ok"

    @property
    def refused(self):
        return self.kind != "ok"

    def cls(self):
        return type(self.exc).__name__ if self.exc is not None else None

    def __repr__(self):
        if self.ok:
            return "ok"
        return "%s:%s" % (self.kind, self.cls())


def call(ctx, what, fn, *a, **k):
    """invoke fn at the client boundary; classify what escapes.  A foreign exception is a
    C07 witness (bystander for other properties)."""
    try:
        r = fn(*a, **k)
        return Outcome("ok", r)
    except gfapy.Error as e:
        return Outcome("gfapy", exc=e)
    except StepBudgetExceeded:
        raise
    except RecursionError as e:
        org = origin(e) or "?"
        ctx.violation("RecursionError@" + what, "%s: RecursionError (via %s)" % (what, org), prop="C07")
        return Outcome("foreign", exc=e)
    except Exception as e:
        if raised_in_harness(e) and origin(e) is None:
            raise
        org = origin(e) or "?"
        key = "%s@%s" % (type(e).__name__, org)
        ctx.violation(key, "%s raised %s: %s" % (what, type(e).__name__, str(e)[:300]), prop="C07")
        return Outcome("foreign", exc=e)
