"""Installation of the global monitors on the real gfapy classes (no source hooks):

M4  quiescent-point invariant walker around the mutating entry points
M7  contracts (icontract when importable, hand-written otherwise) on real functions

Every wrapper counts its evaluations (counts())."""
import functools
import gfapy
from . import invariants

_ctx = None
_depth = 0
_counts = {}
_installed = False
RATE = 1          # run the walker on every RATE-th outermost return
_tick = 0
ENABLED = {"closed_symmetric": True, "unique_names": True}
EXTRA_INVARIANTS = []     # callables g -> [(prop, key, detail)] added by property modules
_suspended = 0


def counts():
    return dict(_counts)


def _bump(k, n=1):
    _counts[k] = _counts.get(k, 0) + n


class suspended:
    """context manager: no walker inside (used while the harness itself drives gfapy for
    bookkeeping, and for the transparency re-runs)."""
    def __enter__(self):
        global _suspended
        _suspended += 1

    def __exit__(self, *a):
        global _suspended
        _suspended -= 1


def walk(g, where=""):
    """run the enabled invariants on g now and report to the context."""
    if _ctx is None or g is None:
        return
    _bump("walker_runs")
    if ENABLED["closed_symmetric"]:
        try:
            bad = invariants.closed_symmetric(g)
        except RecursionError:
            raise
        except Exception as e:
            bad = [("walker-exception/" + type(e).__name__, repr(e))]
        _bump("closed_symmetric_evals")
        for key, detail in bad:
            _ctx.violation(key, "after %s: %s" % (where, detail), prop="C02")
    if ENABLED["unique_names"]:
        try:
            bad = invariants.unique_names(g)
        except RecursionError:
            raise
        except Exception as e:
            bad = [("walker-exception/" + type(e).__name__, repr(e))]
        _bump("unique_names_evals")
        for key, detail in bad:
            _ctx.violation(key, "after %s: %s" % (where, detail), prop="C09")
    for fn in EXTRA_INVARIANTS:
        for prop, key, detail in fn(g):
            _ctx.violation(key, "after %s: %s" % (where, detail), prop=prop)


def _gfa_of(obj):
    if isinstance(obj, gfapy.Gfa):
        return obj
    try:
        return obj.gfa
    except Exception:
        return None


def _mutator(name, fn, gfa_before=False):
    @functools.wraps(fn)
    def w(self, *a, **k):
        global _depth, _tick
        if _suspended:
            return fn(self, *a, **k)
        g0 = _gfa_of(self) if gfa_before else None
        _depth += 1
        try:
            r = fn(self, *a, **k)
        except Exception:
            _depth -= 1
            if _depth == 0 and name != "Gfa()":
                # a refused call is a quiescent point too: the structure must be sound
                # (not for the constructor: the caller never gets the object)
                _bump("outermost-raised:" + name)
                _tick += 1
                if _tick % RATE == 0:
                    g = g0 if g0 is not None else _gfa_of(self)
                    if g is not None:
                        walk(g, name + " (raised)")
            raise
        else:
            _depth -= 1
        if _depth == 0:
            _bump("outermost:" + name)
            _tick += 1
            if _tick % RATE == 0:
                g = g0 if g0 is not None else _gfa_of(self)
                if g is not None:
                    walk(g, name)
        return r
    w.__verif_wrapped__ = True
    return w


def _wrap(cls, attr, name=None, **kw):
    f = cls.__dict__.get(attr)
    if f is None or getattr(f, "__verif_wrapped__", False):
        return False
    setattr(cls, attr, _mutator(name or attr, f, **kw))
    return True


def install(ctx):
    """wrap the mutating entry points in place on their defining classes."""
    global _ctx, _installed
    _ctx = ctx
    if _installed:
        return
    _installed = True
    from gfapy.lines.creators import Creators
    from gfapy.lines.destructors import Destructors
    from gfapy.line.common.connection import Connection
    from gfapy.line.common.disconnection import Disconnection
    from gfapy.line.common.field_data import FieldData
    # add_line and its alias `append` (bound at class creation: wrap both names)
    same = Creators.__dict__.get("append") is Creators.__dict__.get("add_line")
    _wrap(Creators, "add_line")
    if same:
        Creators.append = Creators.__dict__["add_line"]
    else:
        _wrap(Creators, "append")
    _wrap(Creators, "process_line_queue")
    _wrap(Destructors, "rm")
    _wrap(Connection, "connect")
    _wrap(Disconnection, "disconnect", gfa_before=True)
    _wrap(FieldData, "_set_existing_field", name="set_field")
    _wrap(FieldData, "set")
    _wrap(FieldData, "delete")
    _wrap(gfapy.Gfa, "__init__", name="Gfa()")
    _wrap(gfapy.Gfa, "read_file")
    from gfapy.graph_operations.linear_paths import LinearPaths
    from gfapy.graph_operations.multiplication import Multiplication
    from gfapy.graph_operations.artifacts import Artifacts
    from gfapy.graph_operations.copy_number import CopyNumber
    from gfapy.graph_operations.superfluous_links import SuperfluousLinks
    for c, names in ((LinearPaths, ["merge_linear_path", "merge_linear_paths"]),
                     (Multiplication, ["multiply"]),
                     (Artifacts, ["remove_small_components", "remove_dead_ends"]),
                     (CopyNumber, ["apply_copy_numbers", "delete_low_coverage_segments"]),
                     (SuperfluousLinks, ["remove_self_link", "remove_self_links"])):
        for n in names:
            _wrap(c, n)
    # group item editing
    from gfapy.line.group.unordered.references import References as URefs
    from gfapy.line.group.ordered.references import References as ORefs
    for n in ("add_item", "rm_item"):
        _wrap(URefs, n)
    for n in ("append_item", "prepend_item", "rm_first_item", "rm_last_item"):
        _wrap(ORefs, n)
    _install_contracts()


# ------------------------------------------------------------------------- M7
class ContractBroken(Exception):
    pass


def _install_contracts():
    """contracts on real functions.  They *record* (ctx.violation) and return True so
    that a broken contract never aborts the execution it observes."""
    try:
        import icontract
        have = True
    except Exception:
        icontract = None
        have = False
    _counts["icontract"] = 1 if have else 0
    from gfapy.alignment.cigar import CIGAR

    # --- CIGAR.complement: receiver unchanged (C10), lengths swapped (C12)
    def cig_snapshot(self):
        return [(op.length, op.code) for op in self]

    def cig_post(self, result, OLD):
        _bump("contract:CIGAR.complement")
        now = [(op.length, op.code) for op in self]
        if now != OLD.ops:
            _ctx.violation("complement-mutates-receiver/CIGAR",
                           "CIGAR.complement() changed its receiver from %s to %s"
                           % (OLD.ops, now), prop="C10")
        try:
            if all(c in "MIDP=XH" for _, c in OLD.ops):
                before_ref = sum(l for l, c in OLD.ops if c in "M=XDN")
                before_q = sum(l for l, c in OLD.ops if c in "M=XIS")
                if (result.length_on_reference(), result.length_on_query()) != (before_q, before_ref):
                    _ctx.violation("complement-lengths", "complement of %s has lengths (%d,%d)"
                                   % (OLD.ops, result.length_on_reference(), result.length_on_query()),
                                   prop="C12")
        except Exception:
            pass
        return True

    if have:
        f = CIGAR.__dict__["complement"]
        f = icontract.ensure(cig_post, error=ContractBroken)(f)
        f = icontract.snapshot(cig_snapshot, name="ops")(f)
        CIGAR.complement = f
    else:
        orig = CIGAR.__dict__["complement"]

        class _O:
            pass

        @functools.wraps(orig)
        def comp(self):
            o = _O()
            o.ops = cig_snapshot(self)
            r = orig(self)
            cig_post(self, r, o)
            return r
        CIGAR.complement = comp

    # --- Line.clone: result detached, same text, receiver text unchanged (C19/C10)
    from gfapy.line.common.cloning import Cloning
    from .obs import safe_str
    orig_clone = Cloning.__dict__["clone"]

    def clone_snapshot(self):
        return safe_str(self)

    def clone_post(self, result, OLD):
        _bump("contract:Line.clone")
        try:
            if result.is_connected() or result.gfa is not None:
                _ctx.violation("clone-connected/%s" % self.record_type, OLD.text, prop="C19")
            if safe_str(self) != OLD.text:
                _ctx.violation("clone-mutates-receiver/%s" % self.record_type,
                               "%s -> %s" % (OLD.text, safe_str(self)), prop="C10")
        except Exception:
            pass
        return True

    if have:
        f = icontract.ensure(clone_post, error=ContractBroken)(orig_clone)
        f = icontract.snapshot(clone_snapshot, name="text")(f)
        Cloning.clone = f
    else:
        class _O2:
            pass

        @functools.wraps(orig_clone)
        def clone(self):
            o = _O2()
            o.text = clone_snapshot(self)
            r = orig_clone(self)
            clone_post(self, r, o)
            return r
        Cloning.clone = clone

    # --- NumericArray.compute_subtype: result holds all elements, no smaller subtype does (C20)
    from gfapy.numeric_array import NumericArray
    orig_cs = NumericArray.__dict__["compute_subtype"]
    RANGES = {"c": (-128, 127), "C": (0, 255), "s": (-32768, 32767), "S": (0, 65535),
              "i": (-2**31, 2**31 - 1), "I": (0, 2**32 - 1)}
    ORDER = {"C": 0, "c": 0, "S": 1, "s": 1, "I": 2, "i": 2}

    def cs_post(self, result):
        _bump("contract:NumericArray.compute_subtype")
        try:
            vals = list(self)
            if not vals:
                return True
            if result == "f":
                if not all(isinstance(v, float) for v in vals):
                    _ctx.violation("subtype-f-for-nonfloat", repr(vals), prop="C20")
                return True
            lo, hi = RANGES[result]
            if not all(isinstance(v, int) and lo <= v <= hi for v in vals):
                _ctx.violation("subtype-too-small/%s" % result, repr(vals), prop="C20")
            for st, (a, b) in RANGES.items():
                if ORDER[st] < ORDER[result] and all(a <= v <= b for v in vals):
                    if (min(vals) < 0) == (st in "csi"):
                        _ctx.violation("subtype-not-smallest/%s" % result, repr(vals), prop="C20")
        except Exception:
            pass
        return True

    if have:
        NumericArray.compute_subtype = icontract.ensure(cs_post, error=ContractBroken)(orig_cs)
    else:
        @functools.wraps(orig_cs)
        def cs(self):
            r = orig_cs(self)
            cs_post(self, r)
            return r
        NumericArray.compute_subtype = cs

    # --- Gfa.unused_name: result not in use (C09)
    from gfapy.lines.collections import Collections
    orig_un = Collections.__dict__["unused_name"]

    @functools.wraps(orig_un)
    def unused_name(self):
        r = orig_un(self)
        _bump("contract:unused_name")
        try:
            if r in self.names or self.line(r) is not None:
                _ctx.violation("unused-name-in-use", "unused_name() returned %r which is in use" % r,
                               prop="C09")
        except Exception:
            pass
        return r
    Collections.unused_name = unused_name
