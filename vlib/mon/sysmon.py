"""M8: sys.monitoring probes (CPython >= 3.12): raise sites, line coverage of the anchor
files, logical step counting (function entries + backward jumps inside gfapy/)."""
import sys
import os
import glob

TOOL = 3   # a free tool id (0..5); 3 is not used by debugger/coverage/profiler defaults
mon = getattr(sys, "monitoring", None)


class StepBudgetExceeded(BaseException):
    """harness exception: deliberately NOT an Exception subclass so that no
    `except Exception`/bare-except-free code in the library can swallow it...
    (bare `except:` can; the callback keeps raising on every further step)."""


class Probes:
    def __init__(self, root):
        self.root = os.path.join(os.path.realpath(root), "gfapy") + os.sep
        self.raise_sites = {}       # (relfile, func, exc class) -> count
        self.lines = {}             # relfile -> set(lineno)
        self.anchor_files = set()
        self.steps = 0
        self.step_limit = None
        self.active = False
        self._events = 0

    def _rel(self, code):
        fn = code.co_filename
        if fn.startswith(self.root):
            return fn[len(self.root):]
        return None

    # ---- callbacks
    def _on_raise(self, code, off, exc):
        rel = self._rel(code)
        if rel is not None:
            k = (rel, code.co_name, type(exc).__name__)
            self.raise_sites[k] = self.raise_sites.get(k, 0) + 1

    def _on_line(self, code, line):
        rel = self._rel(code)
        if rel is not None and rel in self.anchor_files:
            self.lines.setdefault(rel, set()).add(line)
        return mon.DISABLE

    def _on_start(self, code, off):
        if self._rel(code) is None:
            return mon.DISABLE
        self.steps += 1
        if self.step_limit is not None and self.steps > self.step_limit:
            raise StepBudgetExceeded(self.steps)

    def _on_jump(self, code, src, dst):
        if self._rel(code) is None:
            return mon.DISABLE
        if dst < src:
            self.steps += 1
            if self.step_limit is not None and self.steps > self.step_limit:
                raise StepBudgetExceeded(self.steps)

    # ---- control
    def install(self, raises=True, lines=False, steps=False, anchors=()):
        if mon is None:
            return False
        try:
            mon.use_tool_id(TOOL, "verif")
        except ValueError:
            pass
        ev = 0
        E = mon.events
        if raises:
            mon.register_callback(TOOL, E.RAISE, self._on_raise)
            ev |= E.RAISE
        if lines:
            self.anchor_files = set(expand_anchors(self.root, anchors))
            mon.register_callback(TOOL, E.LINE, self._on_line)
            ev |= E.LINE
        if steps:
            mon.register_callback(TOOL, E.PY_START, self._on_start)
            mon.register_callback(TOOL, E.JUMP, self._on_jump)
            ev |= E.PY_START | E.JUMP
        self._events = ev
        mon.set_events(TOOL, ev)
        self.active = True
        return True

    def uninstall(self):
        if mon is None or not self.active:
            return
        mon.set_events(TOOL, 0)
        self.active = False

    def coverage(self):
        """executed/executable line counts for the anchor files."""
        tot_e = tot_x = 0
        per = {}
        for rel in sorted(self.anchor_files):
            path = self.root + rel
            x = executable_lines(path)
            e = self.lines.get(rel, set()) & x
            per[rel] = [len(e), len(x)]
            tot_e += len(e)
            tot_x += len(x)
        return {"executed": tot_e, "executable": tot_x, "files": per}


def expand_anchors(root, anchors):
    out = []
    base = os.path.dirname(root.rstrip(os.sep))
    for a in anchors:
        if not a.startswith("gfapy/"):
            continue
        for p in glob.glob(os.path.join(base, a)):
            if p.endswith(".py"):
                out.append(os.path.relpath(p, root))
    return out


def executable_lines(path):
    """line numbers that start a statement according to the compiled code objects."""
    try:
        with open(path) as f:
            src = f.read()
        code = compile(src, path, "exec")
    except Exception:
        return set()
    out = set()
    stack = [code]
    while stack:
        c = stack.pop()
        for _, _, ln in c.co_lines():
            if ln is not None and ln > 0:
                out.add(ln)
        for k in c.co_consts:
            if hasattr(k, "co_lines"):
                stack.append(k)
    return out
