"""§3.6 chain finder and sequence speller for linear-path merging (C14).  Text only."""
from . import edges as E
from . import grammar as S

OPP = {"L": "R", "R": "L"}
# IUPAC nucleotide codes and their complements (written out from the IUPAC table: R = A/G <-> Y = C/T,
# K = G/T <-> M = A/C, B = not A <-> V = not T, D = not C <-> H = not G; S = C/G, W = A/T and N are
# their own complements)
_PAIRS = [("A", "T"), ("C", "G"), ("R", "Y"), ("K", "M"), ("B", "V"), ("D", "H"), ("S", "S"), ("W", "W"), ("N", "N")]
_WCC = {}
for _a, _b in _PAIRS:
    for _x, _y in ((_a, _b), (_b, _a)):
        _WCC[_x] = _y
        _WCC[_x.lower()] = _y.lower()


def rc(seq):
    return "".join(_WCC[c] for c in reversed(seq))


def match_len(ov):
    if ov == "*":
        return 0
    return sum(int(n) for n, c in S.cigar_ops(ov))


def junctions(recs, version):
    """dovetails as (endx, endy, rec index); degree per end."""
    dv = E.dovetail_ends(recs, version)
    deg = {}
    for a, b, i in dv:
        deg[a] = deg.get(a, 0) + 1
        deg[b] = deg.get(b, 0) + 1
    return dv, deg


def mergeable(dv, deg):
    out = []
    for a, b, i in dv:
        if deg[a] == 1 and deg[b] == 1 and a[0] != b[0]:
            out.append((a, b, i))
    return out


def chains(recs, version):
    """list of chains; a chain is a list of (segment, exit_end); rings flagged.
    returns [(chain, is_ring)]"""
    dv, deg = junctions(recs, version)
    mj = mergeable(dv, deg)
    partner = {}
    for a, b, i in mj:
        partner[a] = b
        partner[b] = a
    segs = [r.pos[0] for r in recs if r.rt == "S"]
    seen = set()
    out = []
    # open chains: start from extremities
    for s in segs:
        if s in seen:
            continue
        ends = [e for e in ("L", "R") if (s, e) in partner]
        if len(ends) != 1:
            continue
        chain = []
        cur, exit_end = s, ends[0]
        while True:
            chain.append((cur, exit_end))
            seen.add(cur)
            nxt = partner.get((cur, exit_end))
            if nxt is None:
                break
            cur, exit_end = nxt[0], OPP[nxt[1]]
            if cur in seen:
                break
        if len(chain) >= 2:
            out.append((chain, False))
    # rings: every remaining segment with both ends mergeable
    for s in segs:
        if s in seen or (s, "L") not in partner or (s, "R") not in partner:
            continue
        chain = []
        cur, exit_end = s, "R"
        while cur not in seen:
            chain.append((cur, exit_end))
            seen.add(cur)
            nxt = partner[(cur, exit_end)]
            cur, exit_end = nxt[0], OPP[nxt[1]]
        if len(chain) >= 2:
            out.append((chain, True))
    return out


def reversed_chain(chain):
    return [(s, OPP[e]) for s, e in reversed(chain)]


def norm_chain(chain, ring=False):
    cands = [chain, reversed_chain(chain)]
    if ring:
        n = len(chain)
        rot = []
        for c in list(cands):
            for k in range(n):
                rot.append(c[k:] + c[:k])
        cands = rot
    return min(tuple(c) for c in cands)


def junction_overlap(recs, version, a_end, b_end):
    """overlap string of the (unique) dovetail joining the two ends."""
    for x, y, i in E.dovetail_ends(recs, version):
        if (x, y) == (a_end, b_end) or (y, x) == (a_end, b_end):
            r = recs[i]
            return r.pos[4] if version == "gfa1" else r.pos[7]
    return None


def seg_info(recs, version):
    info = {}
    for r in recs:
        if r.rt != "S":
            continue
        if version == "gfa1":
            seq = r.pos[1]
            ln = r.tag("LN")
            info[r.pos[0]] = (seq, int(ln[1]) if ln else (len(seq) if seq != "*" else None))
        else:
            info[r.pos[0]] = (r.pos[2], int(r.pos[1]))
    return info


def spell(recs, version, path):
    """(sequence or '*', length or None) of a walk given as [(segment, exit_end)]."""
    info = seg_info(recs, version)
    seqs = []
    total = 0
    length_known = True
    for i, (s, e) in enumerate(path):
        seq, ln = info[s]
        cut = 0
        if i > 0:
            ps, pe = path[i - 1]
            ov = junction_overlap(recs, version, (ps, pe), (s, OPP[e]))
            cut = match_len(ov) if ov is not None else 0
        if seq != "*":
            o = seq if e == "R" else rc(seq)
            seqs.append(o[cut:])
        else:
            seqs.append(None)
        if ln is None:
            length_known = False
        else:
            total += ln - cut
    if any(x is None for x in seqs):
        return "*", (total if length_known else None)
    full = "".join(seqs)
    return full, len(full)
