"""§3.8 independent GFA1 <-> GFA2 edge semantics: E-line semantic normal form, L/C -> E."""
from . import grammar as S


def ref_len(cig):
    return sum(int(n) for n, c in S.cigar_ops(cig) if c in "M=XDN")


def query_len(cig):
    return sum(int(n) for n, c in S.cigar_ops(cig) if c in "M=XIS")


def pos2(v, slen):
    return "%d$" % v if v == slen else str(v)


def swap_id(cig):
    if cig == "*" or "," in cig or cig.isdigit():
        return cig if cig == "*" else "*trace*"
    return "".join(n + {"I": "D", "D": "I"}.get(c, c) for n, c in S.cigar_ops(cig))


def reverse_ops(cig):
    if cig == "*" or "," in cig or cig.isdigit():
        return cig if cig == "*" else "*trace*"
    return "".join(n + c for n, c in reversed(S.cigar_ops(cig)))


def e_tuple(rec):
    """E record -> (s1, o1, s2, o2, (b1, e1), (b2, e2), aln)."""
    return (rec.pos[1][:-1], rec.pos[1][-1], rec.pos[2][:-1], rec.pos[2][-1], (rec.pos[3], rec.pos[4]),
            (rec.pos[5], rec.pos[6]), rec.pos[7])


def e_swap(e):
    s1, o1, s2, o2, i1, i2, a = e
    return (s2, o2, s1, o1, i2, i1, swap_id(a))


def e_flip(e):
    s1, o1, s2, o2, i1, i2, a = e
    return (s1, S.inv(o1), s2, S.inv(o2), i1, i2, reverse_ops(a))


def e_nf(e):
    """semantic normal form: smallest of the four equivalent spellings."""
    return min([e, e_swap(e), e_flip(e), e_swap(e_flip(e))])


def e_of_link(rec, lens):
    """L record -> E tuple (None if lengths/overlap unknown)."""
    f, fo, t, to, ov = rec.pos[:5]
    if ov == "*" or lens.get(f) is None or lens.get(t) is None:
        return None
    rl, ql = ref_len(ov), query_len(ov)
    lf, lt = lens[f], lens[t]
    i1 = (pos2(lf - rl, lf), pos2(lf, lf)) if fo == "+" else (pos2(0, lf), pos2(rl, lf))
    i2 = (pos2(0, lt), pos2(ql, lt)) if to == "+" else (pos2(lt - ql, lt), pos2(lt, lt))
    return (f, fo, t, to, i1, i2, ov)


def e_of_containment(rec, lens):
    f, fo, t, to, pos, ov = rec.pos[:6]
    if ov == "*" or lens.get(f) is None or lens.get(t) is None:
        return None
    rl = ref_len(ov)
    lf, lt = lens[f], lens[t]
    p = int(pos)
    return (f, fo, t, to, (pos2(p, lf), pos2(p + rl, lf)), (pos2(0, lt), pos2(lt, lt)), ov)


def seg_lengths(recs, version):
    out = {}
    for r in recs:
        if r.rt != "S":
            continue
        if version == "gfa1":
            ln = r.tag("LN")
            out[r.pos[0]] = int(ln[1]) if ln else (len(r.pos[1]) if r.pos[1] != "*" else None)
        else:
            out[r.pos[0]] = int(r.pos[1])
    return out
