"""§3.4 specification edge semantics -> per-segment collections (C11), §3.5 components and
counts (C16).  Works on grammar.Rec lists; never imports gfapy."""


def interval_kind(beg, end):
    """whole / pfx / sfx / inner for GFA2 position strings (possibly empty intervals)."""
    b, e = int(beg.rstrip("$")), int(end.rstrip("$"))
    bl, el = beg.endswith("$"), end.endswith("$")
    first = (b == 0)
    if first:
        if e == 0:
            return "pfx"            # empty prefix (also when the segment is empty: 0$)
        return "whole" if el else "pfx"
    if bl:
        return "sfx"                # empty suffix
    return "sfx" if el else "inner"


def classify_edge(rec):
    """E line -> dict(kind: L|C|I, keys: {1: collection of sid1's segment, 2: ...})."""
    o1, o2 = rec.pos[1][-1], rec.pos[2][-1]
    k1 = interval_kind(rec.pos[3], rec.pos[4])
    k2 = interval_kind(rec.pos[5], rec.pos[6])
    if k1 == "whole" or k2 == "whole":
        if k1 == "whole" and k2 == "whole":
            # both whole: sid1 contains sid2 (documented convention)
            return {"kind": "C", 1: "edges_to_contained", 2: "edges_to_containers"}
        if k1 == "whole":
            return {"kind": "C", 1: "edges_to_containers", 2: "edges_to_contained"}
        return {"kind": "C", 1: "edges_to_contained", 2: "edges_to_containers"}
    end = {"pfx": "L", "sfx": "R"}
    if o1 == o2:
        if {k1, k2} == {"pfx", "sfx"}:
            return {"kind": "L", 1: "dovetails_" + end[k1], 2: "dovetails_" + end[k2]}
    else:
        if k1 == k2 and k1 in end:
            return {"kind": "L", 1: "dovetails_" + end[k1], 2: "dovetails_" + end[k2]}
    return {"kind": "I", 1: "internals", 2: "internals"}


def gap_keys(rec):
    o1, o2 = rec.pos[1][-1], rec.pos[2][-1]
    # a gap follows the first oriented segment and precedes the second
    k1 = "gaps_R" if o1 == "+" else "gaps_L"
    k2 = "gaps_L" if o2 == "+" else "gaps_R"
    return k1, k2


def link_keys(rec):
    fo, to = rec.pos[1], rec.pos[3]
    return ("dovetails_R" if fo == "+" else "dovetails_L",
            "dovetails_L" if to == "+" else "dovetails_R")


COLLS = ["dovetails_L", "dovetails_R", "edges_to_contained", "edges_to_containers", "internals",
         "gaps_L", "gaps_R", "fragments"]


def neighbourhoods(recs, version):
    """segment name -> collection name -> list of record indexes (with multiplicity)."""
    out = {}
    for r in recs:
        if r.rt == "S":
            out[r.pos[0]] = {c: [] for c in COLLS}

    def put(seg, coll, i):
        out.setdefault(seg, {c: [] for c in COLLS})[coll].append(i)
    for i, r in enumerate(recs):
        if version == "gfa1":
            if r.rt == "L":
                k1, k2 = link_keys(r)
                put(r.pos[0], k1, i)
                put(r.pos[2], k2, i)
            elif r.rt == "C":
                put(r.pos[0], "edges_to_contained", i)
                put(r.pos[2], "edges_to_containers", i)
        else:
            if r.rt == "E":
                c = classify_edge(r)
                put(r.pos[1][:-1], c[1], i)
                put(r.pos[2][:-1], c[2], i)
            elif r.rt == "G":
                k1, k2 = gap_keys(r)
                put(r.pos[1][:-1], k1, i)
                put(r.pos[2][:-1], k2, i)
            elif r.rt == "F":
                put(r.pos[0], "fragments", i)
    return out


def dovetail_ends(recs, version):
    """list of ((seg, end), (seg, end), rec index) for every dovetail edge."""
    out = []
    for i, r in enumerate(recs):
        if version == "gfa1" and r.rt == "L":
            k1, k2 = link_keys(r)
            out.append(((r.pos[0], k1[-1]), (r.pos[2], k2[-1]), i))
        elif version == "gfa2" and r.rt == "E":
            c = classify_edge(r)
            if c["kind"] == "L":
                out.append(((r.pos[1][:-1], c[1][-1]), (r.pos[2][:-1], c[2][-1]), i))
    return out


class UnionFind:
    def __init__(self, items):
        self.p = {x: x for x in items}

    def find(self, x):
        while self.p[x] != x:
            self.p[x] = self.p[self.p[x]]
            x = self.p[x]
        return x

    def union(self, a, b):
        ra, rb = self.find(a), self.find(b)
        if ra != rb:
            self.p[ra] = rb

    def classes(self):
        d = {}
        for x in self.p:
            d.setdefault(self.find(x), set()).add(x)
        return sorted((frozenset(v) for v in d.values()), key=sorted)


def components(recs, version):
    segs = [r.pos[0] for r in recs if r.rt == "S"]
    uf = UnionFind(segs)
    for (a, _), (b, _), _i in dovetail_ends(recs, version):
        if a in uf.p and b in uf.p:
            uf.union(a, b)
    return uf.classes()


def counts(recs, version):
    nb = neighbourhoods(recs, version)
    segs = [r.pos[0] for r in recs if r.rt == "S"]
    nd = nc = ni = 0
    for r in recs:
        if version == "gfa1":
            nd += r.rt == "L"
            nc += r.rt == "C"
        elif r.rt == "E":
            k = classify_edge(r)["kind"]
            nd += k == "L"
            nc += k == "C"
            ni += k == "I"
    dead = 0
    for s in segs:
        for e in ("L", "R"):
            if not nb[s]["dovetails_" + e]:
                dead += 1
    return {"n_dovetails": nd, "n_containments": nc, "n_internals": ni, "n_dead_ends": dead}
