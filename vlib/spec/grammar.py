"""Independent executable model of the GFA1/GFA2 *text* grammar (DESIGN §3.1, App. B).

Never imports gfapy.  Everything works on text.  Verdicts are three-valued:
  ("VALID", None) / ("INVALID", reason) / ("UNSPEC", reason)
"""
import re
import json

VALID, INVALID, UNSPEC = "VALID", "INVALID", "UNSPEC"

# ----------------------------------------------------------------- field grammars
# full-string semantics: every pattern is used with re.fullmatch and the string is
# additionally required not to contain a newline at the end (fullmatch has no "$"
# quirk, but "\n" inside character classes must be excluded explicitly).
RE = {
    "A": r"[!-~]",
    "i": r"[-+]?[0-9]+",
    "f": r"[-+]?[0-9]*\.?[0-9]+([eE][-+]?[0-9]+)?",
    "Z": r"[ !-~]+",
    "J": r"[ !-~]+",
    "H": r"([0-9A-F][0-9A-F])+",
    "B": r"([cCsSiI](,[-+]?[0-9]+)+|f(,[-+]?[0-9]*\.?[0-9]+([eE][-+]?[0-9]+)?)+)",
    "name1": r"[!-)+-<>-~][!-~]*",
    "pname1": r"[!-)+-<>-~][!-~]*",
    "seq1": r"\*|[A-Za-z=.]+",
    "orient": r"[+-]",
    "cigar1": r"\*|([0-9]+[MIDNSHPX=])+",
    "cigar1_list": r"(\*|([0-9]+[MIDNSHPX=])+)(,(\*|([0-9]+[MIDNSHPX=])+))*",
    "pos1": r"[0-9]+",
    "id2": r"[!-~]+",
    "optid2": r"[!-~]+",          # '*' is the placeholder, also matches
    "ref2": r"[!-~]+[+-]",
    "seq2": r"\*|[!-~]+",
    "pos2": r"[0-9]+\$?",
    "aln2": r"\*|([0-9]+[MDIP])+|[0-9]+(,[0-9]+)*",
    "int": r"-?[0-9]+",
    "optint": r"\*|-?[0-9]+",
    "reflist2": r"[!-~]+[+-]( [!-~]+[+-])*",
    "idlist2": r"[!-~]+( [!-~]+)*",
    "generic": r"[^\t\n]*",
    "tagname": r"[A-Za-z][A-Za-z0-9]",
}
_C = {k: re.compile(v) for k, v in RE.items()}

B_RANGE = {"c": (-128, 127), "C": (0, 255), "s": (-32768, 32767), "S": (0, 65535),
           "i": (-2**31, 2**31 - 1), "I": (0, 2**32 - 1)}


def fm(kind, s):
    return _C[kind].fullmatch(s) is not None


def _has_nonfinite(v, depth=0):
    if isinstance(v, float):
        return v != v or v in (float("inf"), float("-inf"))
    if depth > 50:
        return False
    if isinstance(v, list):
        return any(_has_nonfinite(x, depth + 1) for x in v)
    if isinstance(v, dict):
        return any(_has_nonfinite(x, depth + 1) for x in v.values())
    return False


def _no_json_constant(name):
    raise ValueError("%s is not JSON" % name)


def tag_value_verdict(dt, v):
    """verdict for a tag value string of datatype dt."""
    if dt not in "AifZJHB" or len(dt) != 1:
        return (INVALID, "unknown datatype")
    if v == "":
        return (INVALID, "empty value")
    if not fm(dt, v):
        return (INVALID, "syntax:" + dt)
    if dt in "ifBJ" and _HUGE.search(v):
        return (UNSPEC, "number beyond the conversion limit of the interpreter")
    if dt == "J":
        try:
            # (RFC 8259: NaN, Infinity and -Infinity are not JSON, although Python's parser takes them)
            val = json.loads(v, parse_constant=_no_json_constant)
        except Exception:
            return (INVALID, "json")
        if not isinstance(val, (list, dict)):
            return (UNSPEC, "json scalar")
        if _has_nonfinite(val):
            return (UNSPEC, "json number outside the range of a double")
        return (VALID, None)
    if dt == "f":
        try:
            x = float(v)
            if x != x or x in (float("inf"), float("-inf")):
                return (UNSPEC, "float outside the range of a double")
        except ValueError:
            pass
        return (VALID, None)
    if dt == "B":
        parts = v.split(",")
        st = parts[0]
        if st == "f":
            for e in parts[1:]:
                try:
                    x = float(e)
                    if x != x or x in (float("inf"), float("-inf")):
                        return (UNSPEC, "float outside the range of a double")
                except ValueError:
                    pass
        if st != "f":
            lo, hi = B_RANGE[st]
            for e in parts[1:]:
                x = int(e)
                if x < lo or x > hi:
                    return (INVALID, "B range")
        return (VALID, None)
    return (VALID, None)


# ------------------------------------------------------------------ record tables
# positional field kinds per (version, record type)
POS = {
    ("gfa1", "S"): ["name1", "seq1"],
    ("gfa1", "L"): ["name1", "orient", "name1", "orient", "cigar1"],
    ("gfa1", "C"): ["name1", "orient", "name1", "orient", "pos1", "cigar1"],
    ("gfa1", "P"): ["pname1", "seglist1", "cigar1_list"],
    ("gfa2", "S"): ["id2", "slen", "seq2"],
    ("gfa2", "E"): ["optid2", "ref2", "ref2", "pos2", "pos2", "pos2", "pos2", "aln2"],
    ("gfa2", "F"): ["id2", "ref2", "pos2", "pos2", "pos2", "pos2", "aln2"],
    ("gfa2", "G"): ["optid2", "ref2", "ref2", "int", "optint"],
    ("gfa2", "O"): ["optid2", "reflist2"],
    ("gfa2", "U"): ["optid2", "idlist2"],
}
PREDEF = {
    ("gfa1", "S"): {"LN": "i", "RC": "i", "FC": "i", "KC": "i", "SH": "H", "UR": "Z"},
    ("gfa1", "L"): {"MQ": "i", "NM": "i", "RC": "i", "FC": "i", "KC": "i", "ID": "Z"},
    ("gfa1", "C"): {"MQ": "i", "NM": "i", "ID": "Z"},
    ("gfa1", "P"): {},
    ("gfa2", "S"): {"RC": "i", "FC": "i", "KC": "i", "SH": "H", "UR": "Z"},
    ("gfa2", "E"): {"TS": "i"},
    ("gfa2", "F"): {"TS": "i"},
    ("gfa2", "G"): {},
    ("gfa2", "O"): {},
    ("gfa2", "U"): {},
    ("*", "H"): {"VN": "Z", "TS": "i"},
}
GFA1_ONLY = {"L", "C", "P"}
GFA2_ONLY = {"E", "F", "G", "O", "U"}
TAGRE = re.compile(r"([A-Za-z][A-Za-z0-9]):([AifZJHB]):(.+)", re.S)
TAGLIKE = re.compile(r"..:.:.*", re.S)


class Rec:
    __slots__ = ("rt", "pos", "tags", "version", "raw", "uid")

    def __init__(self, rt, pos, tags, version=None, raw=None):
        self.rt = rt
        self.pos = list(pos)
        self.tags = list(tags)      # [(name, dt, valuestr)]
        self.version = version
        self.raw = raw

    def text(self):
        if self.rt == "#":
            return self.raw if self.raw is not None else "#" + self.pos[1] + self.pos[0]
        return "\t".join([self.rt] + self.pos + ["%s:%s:%s" % t for t in self.tags])

    def tag(self, name):
        for n, d, v in self.tags:
            if n == name:
                return (d, v)
        return None

    def copy(self):
        return Rec(self.rt, list(self.pos), list(self.tags), self.version, self.raw)

    def __repr__(self):
        return "Rec(%r)" % self.text()


def split_tags(fields):
    """split trailing tag-looking fields (gfapy custom-record heuristic, documented)."""
    n = len(fields)
    first = n
    for i in range(n - 1, -1, -1):
        if TAGRE.fullmatch(fields[i]) and "\n" not in fields[i]:
            first = i
        else:
            break
    return fields[:first], fields[first:]


def seg_version(fields):
    """version implied by the number of positional fields of an S line."""
    pos, _ = split_tags(fields[1:])
    # documented sniffing: trailing fields that look like tags are tags
    n = len(fields) - 1
    for i in range(len(fields) - 1, 0, -1):
        if not TAGLIKE.fullmatch(fields[i]):
            break
        n = i - 1
    if n == 2:
        return "gfa1"
    if n == 3:
        return "gfa2"
    return None


def parse_line(line, version=None):
    """text -> Rec (syntactic split only; no validation).  version: gfa1/gfa2/None."""
    if line.startswith("#"):
        m = re.match(r"#(\s*)(.*)", line, re.S)
        return Rec("#", [m.group(2), m.group(1)], [], version, raw=line)
    f = line.split("\t")
    rt = f[0]
    if rt == "S" and version is None:
        version = seg_version(f)
    if rt in GFA1_ONLY and version is None:
        version = "gfa1"
    if rt in GFA2_ONLY and version is None:
        version = "gfa2"
    key = (version, rt)
    if rt == "H":
        npos = 0
    elif key in POS:
        npos = len(POS[key])
    else:
        # custom record (gfa2): heuristic split
        pos, tags = split_tags(f[1:])
        return Rec(rt, pos, [TAGRE.fullmatch(t).groups() for t in tags], version or "gfa2", raw=line)
    pos = f[1:1 + npos]
    tags = []
    for t in f[1 + npos:]:
        m = TAGRE.fullmatch(t)
        if m:
            tags.append(m.groups())
        else:
            tags.append((None, None, t))
    return Rec(rt, pos, tags, version, raw=line)


def split_doc(text):
    """model's own line splitter: LF or CRLF, trailing empty line ignored."""
    lines = text.split("\n")
    out = []
    for l in lines:
        if l.endswith("\r"):
            l = l[:-1]
        out.append(l)
    while out and out[-1] == "":
        out.pop()
    return out


# ---------------------------------------------------------------- line recogniser
_HUGE = re.compile(r"[0-9]{4000,}")


def _field_verdict(kind, s):
    if "\n" in s or "\t" in s:
        return (INVALID, "newline/tab in field")
    if kind in ("slen", "pos1", "pos2", "int", "optint", "cigar1", "cigar1_list", "aln2") and _HUGE.search(s):
        return (UNSPEC, "integer beyond the conversion limit of the interpreter")
    if kind == "slen":
        if fm("pos1", s):
            return (VALID, None)
        if fm("i", s):
            return (UNSPEC, "signed slen")
        return (INVALID, "slen")
    if kind == "seglist1":
        parts = s.split(",")
        for p in parts:
            if len(p) < 2 or p[-1] not in "+-" or not fm("name1", p[:-1]):
                return (INVALID, "segment list")
        return (VALID, None)
    if kind == "name1":
        if not fm("name1", s):
            return (INVALID, "name1")
        if re.search(r"[+-],", s):
            return (INVALID, "name1 +,")
        return (VALID, None)
    if kind == "optint" or kind == "int":
        if fm(kind, s):
            return (VALID, None)
        if kind == "optint" and fm("i", s) or kind == "int" and fm("i", s):
            return (UNSPEC, "leading +")
        return (INVALID, kind)
    if kind == "seq2":
        if not fm("seq2", s):
            return (INVALID, "seq2")
        return (VALID, None)
    if kind == "aln2":
        if fm("aln2", s):
            return (VALID, None)
        return (INVALID, "aln2")
    if not fm(kind, s):
        return (INVALID, kind)
    return (VALID, None)


def worst(*vs):
    """combine verdicts: INVALID dominates, then UNSPEC."""
    res = (VALID, None)
    for v in vs:
        if v[0] == INVALID:
            return v
        if v[0] == UNSPEC and res[0] == VALID:
            res = v
    return res


def recognise_line(line, version=None, dialect="standard"):
    """Verdict for a single line offered to gfapy.Line(line, version=version).

    version None: the record type (and S field count) decides.
    """
    if line == "":
        return (INVALID, "empty line")
    if line.startswith("#"):
        if "\n" in line:
            return (INVALID, "newline in comment")
        return (VALID, None)
    f = line.split("\t")
    rt = f[0]
    if rt == "":
        return (INVALID, "empty record type")
    v = version
    if rt == "H":
        key = ("*", "H")
        npos = 0
    else:
        if rt == "S":
            sv = seg_version(f)
            if v is None:
                v = sv
            if v is None:
                return (INVALID, "S field count")
        elif rt in GFA1_ONLY:
            if v == "gfa2":
                return (INVALID, "gfa1 record in gfa2")
            v = "gfa1"
        elif rt in GFA2_ONLY:
            if v == "gfa1":
                return (INVALID, "gfa2 record in gfa1")
            v = "gfa2"
        else:
            # custom record: gfa2 only
            if v == "gfa1":
                return (INVALID, "custom record in gfa1")
            if not fm("id2", rt):
                return (INVALID, "record type syntax")
            pos, tags = split_tags(f[1:])
            for p in pos:
                if "\n" in p:
                    return (INVALID, "newline")
            names = set()
            vs = []
            for t in tags:
                n, d, val = TAGRE.fullmatch(t).groups()
                if n in names:
                    return (UNSPEC, "duplicate tag in custom record (heuristic split)")
                names.add(n)
                vs.append(tag_value_verdict(d, val))
            r = worst(*vs)
            if r[0] == VALID and pos and any(TAGLIKE.fullmatch(p) for p in pos):
                return (UNSPEC, "tag-like positional in custom record")
            if r[0] == INVALID:
                # a malformed trailing tag is, by the documented heuristic, a positional
                return (UNSPEC, "custom record heuristic")
            return r
        key = (v, rt)
        if key not in POS:
            return (INVALID, "record/version")
        npos = len(POS[key])
    if len(f) - 1 < npos:
        return (INVALID, "too few positional fields")
    vs = []
    kinds = POS.get(key, [])
    for kind, s in zip(kinds, f[1:1 + npos]):
        vs.append(_field_verdict(kind, s))
    # tags
    names = set()
    predef = PREDEF.get(key, {})
    for t in f[1 + npos:]:
        m = TAGRE.fullmatch(t)
        if not m or "\n" in t:
            return (INVALID, "malformed tag / extra positional field")
        n, d, val = m.groups()
        if n in names:
            return (INVALID, "duplicate tag")
        names.add(n)
        if n in predef and predef[n] != d:
            return (INVALID, "predefined tag type")
        if rt == "C" and v == "gfa1" and n in ("RC", "MQ") and False:
            vs.append((UNSPEC, "C tag"))
        vs.append(tag_value_verdict(d, val))
    # cross-field rules inside one line
    r = worst(*vs)
    if r[0] == INVALID:
        return r
    if any(x[0] == UNSPEC and "conversion limit" in x[1] for x in vs):
        return r                    # the cross-field rules cannot be evaluated
    rec = parse_line(line, v)
    if key == ("gfa1", "S"):
        ln = rec.tag("LN")
        if ln and rec.pos[1] != "*":
            try:
                if int(ln[1]) != len(rec.pos[1]):
                    return (INVALID, "LN != len(sequence)")
            except ValueError:
                pass
    if key == ("gfa1", "P"):
        nseg = len(rec.pos[1].split(","))
        ovs = rec.pos[2].split(",")
        if not (len(ovs) == nseg - 1 or len(ovs) == nseg or (len(ovs) == 1 and ovs[0] == "*")):
            return (INVALID, "path overlap count")
    if key in (("gfa2", "E"), ("gfa2", "F")):
        ps = rec.pos[3:7] if rt == "E" else rec.pos[2:6]
        for b, e in ((ps[0], ps[1]), (ps[2], ps[3])):
            bv, ev = int(b.rstrip("$")), int(e.rstrip("$"))
            if bv > ev:
                return (INVALID, "beg > end")
            if b.endswith("$") and not e.endswith("$"):
                return (INVALID, "$ on begin but not on end")
            if b.endswith("$") and bv != ev:
                return (INVALID, "$ on begin with begin != end")
    if rt == "H":
        vn = rec.tag("VN")
        if vn and vn[1] not in ("1.0", "2.0"):
            return worst(r, (UNSPEC, "VN value on a stand-alone line"))
        if vn and version == "gfa1" and vn[1] != "1.0":
            return (UNSPEC, "VN vs version on a stand-alone line")
        if vn and version == "gfa2" and vn[1] != "2.0":
            return (UNSPEC, "VN vs version on a stand-alone line")
    if dialect == "rgfa":
        return worst(r, (UNSPEC, "rgfa line-level"))
    return r


# ------------------------------------------------------------------- canonical form
def _num(s):
    try:
        return int(s)
    except ValueError:
        return float(s)


def canon_tag(n, d, v):
    try:
        if d == "i":
            return (n, d, int(v))
        if d == "f":
            return (n, d, float(v))
        if d == "J":
            return (n, d, json.dumps(json.loads(v), sort_keys=True))
        if d == "B":
            p = v.split(",")
            if p[0] == "f":
                return (n, d, ("f",) + tuple(float(x) for x in p[1:]))
            return (n, d, ("int",) + tuple(int(x) for x in p[1:]))
        if d == "H":
            return (n, d, v.upper())
    except Exception:
        pass
    return (n, d, v)


_COMP = {"I": "D", "D": "I", "S": "D", "N": "I"}


def cigar_ops(s):
    return re.findall(r"([0-9]+)([MIDNSHPX=])", s)


def cigar_complement(s):
    if s == "*":
        return "*"
    ops = cigar_ops(s)
    return "".join(n + _COMP.get(c, c) for n, c in reversed(ops))


def inv(o):
    return "-" if o == "+" else "+"


def link_complement_pos(pos):
    a, ao, b, bo, ov = pos
    return [b, inv(bo), a, inv(ao), cigar_complement(ov)]


def canon_rec(rec, link_mod_complement=True):
    """hashable canonical form of a record (DESIGN §3.2)."""
    tags = frozenset(canon_tag(*t) for t in rec.tags)
    pos = tuple(rec.pos)
    if rec.rt == "L" and link_mod_complement and len(rec.pos) == 5:
        c = tuple(link_complement_pos(rec.pos))
        pos = min(pos, c)
    if rec.rt == "#":
        return ("#", rec.text())
    return (rec.rt, pos, tags)


def canon_doc(lines, version=None, split_headers=True):
    """multiset (sorted list) of canonical records of a document given as line list."""
    out = []
    for l in lines:
        if l == "":
            continue
        r = parse_line(l, version)
        if r.rt == "H" and split_headers:
            for t in r.tags:
                out.append(("H", (), frozenset([canon_tag(*t)])))
            continue
        out.append(canon_rec(r))
    return sorted(out, key=repr)
