"""Document-level recogniser (DESIGN §3.1 cross-field / document rules) and version
inference (§3.10).  Text only; never imports gfapy."""
from . import grammar as S
from .grammar import VALID, INVALID, UNSPEC, worst
from . import textmodel as T


def line_version_class(line):
    """'gfa1' | 'gfa2' | 'neutral' | 'bad' for one line, from its record letter and,
    for S lines, its positional field count."""
    if line == "" or line.startswith("#"):
        return "neutral"
    f = line.split("\t")
    rt = f[0]
    if rt == "H":
        for t in f[1:]:
            if t.startswith("VN:Z:"):
                if t == "VN:Z:1.0":
                    return "gfa1"
                if t == "VN:Z:2.0":
                    return "gfa2"
                return "bad"
        return "neutral"
    if rt == "S":
        v = S.seg_version(f)
        return v or "bad"
    if rt in S.GFA1_ONLY:
        return "gfa1"
    if rt in S.GFA2_ONLY:
        return "gfa2"
    return "gfa2"       # custom records exist in GFA2 only


def infer_version(lines, explicit=None):
    """(version | None, verdict) expected for a document: verdict 'ok' / 'conflict' / 'neutral'."""
    classes = [line_version_class(l) for l in lines if l != ""]
    if "bad" in classes:
        return None, "bad"
    vs = set(c for c in classes if c != "neutral")
    if explicit:
        vs.add(explicit)
    if len(vs) > 1:
        return None, "conflict"
    if len(vs) == 1:
        return vs.pop(), "ok"
    return None, "neutral"


def recognise_doc(lines, version=None, dialect="standard"):
    """three-valued verdict for a whole document (list of lines without terminators)."""
    lines = [l for l in lines]
    if any(l == "" for l in lines):
        return (UNSPEC, "blank line in document")
    v, why = infer_version(lines, version)
    if why == "bad":
        return (INVALID, "line with undecidable version")
    if why == "conflict":
        return (INVALID, "version conflict")
    if why == "neutral":
        # only H/#/custom-looking lines: custom records imply gfa2, so not reached for them
        v = version or "gfa2"
        neutral = True
    else:
        neutral = False
    if dialect == "rgfa" and v != "gfa1":
        return (INVALID, "rgfa requires gfa1")
    vs = []
    recs = []
    for l in lines:
        lv = S.recognise_line(l, v if not (l.startswith("H") or l.startswith("#")) else None)
        if lv[0] == INVALID:
            return (INVALID, "line: " + str(lv[1]))
        vs.append(lv)
        recs.append(S.parse_line(l, v))
    r = worst(*vs) if vs else (VALID, None)
    # identifiers unique
    names = {}
    links = []
    for rec in recs:
        rec.version = v
        n = T.ident(rec)
        if n is not None:
            if n in names:
                p = names[n]
                if rec.rt in ("O", "U") and p.rt == rec.rt:
                    r = worst(r, (UNSPEC, "multi-line group"))
                    continue
                if rec.rt in ("O", "U") and p.rt in ("O", "U"):
                    r = worst(r, (UNSPEC, "U and O sharing an identifier"))
                    continue
                return (INVALID, "duplicate identifier")
            names[n] = rec
        if rec.rt == "L" and v == "gfa1":
            for o in links:
                if o.pos[:5] == rec.pos[:5] or o.pos[:5] == S.link_complement_pos(rec.pos[:5]):
                    r = worst(r, (UNSPEC, "duplicate/complement link pair"))
                elif o.pos[:4] == rec.pos[:4] or o.pos[:4] == S.link_complement_pos(rec.pos[:5])[:4]:
                    if o.pos[4] == "*" or rec.pos[4] == "*":
                        r = worst(r, (UNSPEC, "parallel links with * overlap"))
            links.append(rec)
    segs = {rec.pos[0]: rec for rec in recs if rec.rt == "S"}
    for rec in recs:
        if rec.rt == "H":
            vn = rec.tag("VN")
            if vn and vn[1] not in ("1.0", "2.0"):
                return (INVALID, "unsupported VN")
    # header single-definition tags
    seen = {}
    for rec in recs:
        if rec.rt == "H":
            for n, d, val in rec.tags:
                if n in ("VN", "TS"):
                    if n in seen and seen[n] != (d, val):
                        return (INVALID, "conflicting header tag " + n)
                    seen[n] = (d, val)
    # the same header tag given on several H lines with different datatypes: gfapy collects
    # the values of one datatype; the documents do not say what a change of datatype means
    hd = {}
    for rec in recs:
        if rec.rt == "H":
            for n, d, val in rec.tags:
                hd.setdefault(n, set()).add(d)
    if any(len(x) > 1 for x in hd.values()):
        r = worst(r, (UNSPEC, "header tag repeated with another datatype"))
    # references defined
    for rec in recs:
        for m, role in T.mentions(rec):
            if role == "seg":
                if m not in segs:
                    if m in names:
                        return (INVALID, "reference to a non-segment")
                    return (INVALID, "undefined segment")
            else:
                if m not in names:
                    return (INVALID, "undefined group item")
                t = names[m]
                ok = ("S", "E", "O") if rec.rt == "O" else ("S", "E", "O", "U", "G")
                if t.rt not in ok:
                    r = worst(r, (UNSPEC, "group item of unexpected type"))
                if t.rt == "G":
                    r = worst(r, (UNSPEC, "gap in group"))
                if t is rec:
                    r = worst(r, (UNSPEC, "group listing itself"))
        if rec.rt == "P" and v == "gfa1":
            for st in T.path_steps(rec):
                if not any(T.link_supports(l, st) for l in links):
                    r = worst(r, (UNSPEC, "path without supporting link"))
    # $ only on a segment's last position
    for rec in recs:
        if v == "gfa2" and rec.rt in ("E", "F"):
            if rec.rt == "E":
                chk = [(rec.pos[1][:-1], rec.pos[3], rec.pos[4]), (rec.pos[2][:-1], rec.pos[5], rec.pos[6])]
            else:
                chk = [(rec.pos[0], rec.pos[2], rec.pos[3])]
            for sid, b, e in chk:
                seg = segs.get(sid)
                if seg is None:
                    continue
                try:
                    slen = int(seg.pos[1])
                except ValueError:
                    continue
                if seg.pos[2] != "*" and len(seg.pos[2]) != slen:
                    r = worst(r, (UNSPEC, "slen != len(sequence)"))
                    continue
                for p in (b, e):
                    try:
                        pv = int(p.rstrip("$"))
                    except ValueError:
                        continue        # beyond the conversion limit: the line is UNSPEC already
                    if p.endswith("$") and pv != slen:
                        return (INVALID, "$ on a non-last position of a segment %s"
                                % ("without sequence" if seg.pos[2] == "*" else "with sequence"))
                    if not p.endswith("$") and pv == slen:
                        r = worst(r, (UNSPEC, "last position without $"))
                    if pv > slen:
                        r = worst(r, (UNSPEC, "position beyond segment end"))
    if dialect == "rgfa":
        for rec in recs:
            if rec.rt in ("H", "C", "P"):
                return (INVALID, "rgfa forbids %s lines" % rec.rt)
            if rec.rt == "S":
                for tn, dt in (("SN", "Z"), ("SO", "i"), ("SR", "i")):
                    t = rec.tag(tn)
                    if t is None:
                        return (INVALID, "rgfa S without " + tn)
                    if t[0] != dt:
                        return (INVALID, "rgfa tag type")
            if rec.rt == "L":
                for tn in ("SR", "L1", "L2"):
                    t = rec.tag(tn)
                    if t is not None and t[0] != "i":
                        return (INVALID, "rgfa tag type")
                if rec.pos[4] != "0M":
                    return (INVALID, "rgfa overlap not 0M")
    if neutral and r[0] == VALID:
        # a document without any version-specific line: accepted, version UNSPECIFIED
        return (VALID, "neutral")
    return r
