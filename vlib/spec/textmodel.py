"""Text model of a GFA document under mutation (DESIGN §3.3, Appendix C).

Independent of gfapy: records are grammar.Rec objects; mutation = text edit."""
from . import grammar as S
from .grammar import Rec, inv, cigar_complement


def ident(rec):
    """identifier a record carries in the shared namespace (None if none)."""
    rt, v = rec.rt, rec.version
    if rt == "S":
        return rec.pos[0]
    if v == "gfa1":
        if rt == "P":
            return rec.pos[0]
        if rt in ("L", "C"):
            t = rec.tag("ID")
            return t[1] if t else None
        return None
    if rt in ("E", "G", "O", "U"):
        return None if rec.pos[0] == "*" else rec.pos[0]
    return None


def path_steps(rec):
    """[(from,fo,to,to_o,overlap or '*')] the links a P line requires."""
    segs = [(x[:-1], x[-1]) for x in rec.pos[1].split(",")]
    ovs = rec.pos[2].split(",")
    n = len(segs)
    undef = (len(ovs) == 1 and ovs[0] == "*")
    if n == 1 and undef:
        return []
    # (as many overlaps as segments: circular -- also for a single segment, which then runs over
    #  a link from the segment end to the same segment)
    circular = (len(ovs) == n)
    out = []
    for i in range(n):
        j = i + 1
        if j == n:
            if circular:
                j = 0
            else:
                break
        ov = "*" if undef or i >= len(ovs) else ovs[i]
        out.append((segs[i][0], segs[i][1], segs[j][0], segs[j][1], ov))
    return out


def link_supports(l, step):
    """does link record l support path step (a,ao,b,bo,ov), read forwards or reversed?
    returns '+', '-' or None."""
    a, ao, b, bo, ov = step
    f, fo, t, to, lov = l.pos[:5]
    if (f, fo, t, to) == (a, ao, b, bo) and (ov == "*" or lov == "*" or ov == lov):
        return "+"
    if (t, inv(to), f, inv(fo)) == (a, ao, b, bo) and (ov == "*" or lov == "*" or cigar_complement(lov) == ov):
        return "-"
    return None


def mentions(rec):
    """identifiers mentioned by the record: list of (identifier, role)."""
    rt, v = rec.rt, rec.version
    if v == "gfa1":
        if rt in ("L", "C"):
            return [(rec.pos[0], "seg"), (rec.pos[2], "seg")]
        if rt == "P":
            return [(x[:-1], "seg") for x in rec.pos[1].split(",")]
        return []
    if rt in ("E", "G"):
        return [(rec.pos[1][:-1], "seg"), (rec.pos[2][:-1], "seg")]
    if rt == "F":
        return [(rec.pos[0], "seg")]
    if rt == "O":
        return [(x[:-1], "item") for x in rec.pos[1].split(" ")]
    if rt == "U":
        return [(x, "item") for x in rec.pos[1].split(" ")]
    return []


def positions_fit(x, sid, slen):
    """do the positions which E/F record x gives on segment sid fit a segment of length slen?
    ('$' exactly on slen, nothing beyond slen)"""
    cols = []
    if x.rt == "E":
        cols = [c for i, c in ((1, (3, 4)), (2, (5, 6))) if x.pos[i][:-1] == sid]
    elif x.rt == "F" and x.pos[0] == sid:
        cols = [(2, 3)]
    for cc in cols:
        for c in cc:
            p = x.pos[c]
            if not p.rstrip("$").isdigit():
                return False
            if (p.endswith("$") and int(p[:-1]) != slen) or int(p.rstrip("$")) > slen or \
                    (not p.endswith("$") and int(p) == slen):
                return False
    return True


class Model:
    def __init__(self, version, lines=()):
        self.version = version
        self.recs = []
        self._uid = 0
        for l in lines:
            self.add_text(l)

    # ------------------------------------------------------------------ queries
    def text_lines(self):
        return [r.text() for r in self.recs]

    def names(self):
        return {ident(r): r for r in self.recs if ident(r) is not None}

    def by_name(self, n):
        for r in self.recs:
            if ident(r) == n:
                return r
        return None

    def dangling(self):
        """identifiers mentioned but not defined (plus path steps without a link)."""
        names = self.names()
        segs = {r.pos[0] for r in self.recs if r.rt == "S"}
        out = set()
        for r in self.recs:
            for m, role in mentions(r):
                if role == "seg":
                    if m not in segs:
                        out.add(m)
                elif m not in names:
                    out.add(m)
            if r.rt == "P" and self.version == "gfa1":
                for st in path_steps(r):
                    if not any(link_supports(l, st) for l in self.recs if l.rt == "L"):
                        out.add("link:%s%s>%s%s" % st[:4])
        return out

    def closed(self):
        return not self.dangling()

    # ---------------------------------------------------------------- mutation
    def _new(self, rec):
        self._uid += 1
        rec.raw = None if rec.rt != "#" else rec.raw
        rec.uid = self._uid
        return rec

    def add_text(self, line):
        rec = S.parse_line(line, self.version)
        return self.add(rec)

    def find_equivalent_link(self, rec):
        for r in self.recs:
            if r.rt == "L" and (r.pos[:5] == rec.pos[:5] or r.pos[:5] == S.link_complement_pos(rec.pos[:5])):
                return r
        return None

    def mention_conflict(self, rec):
        """does rec mention an identifier carried by a record that cannot play that role?"""
        names = self.names()
        for m, role in mentions(rec):
            t = names.get(m)
            if t is None:
                continue
            if role == "seg" and t.rt != "S":
                return True
            if role == "item":
                ok = ("S", "E", "O") if rec.rt == "O" else ("S", "E", "O", "U", "G")
                if t.rt not in ok:
                    return True
        return False

    def header_conflict(self, rec):
        """single-definition header tags (VN, TS) given again with another value."""
        have = {}
        for r in self.recs:
            if r.rt == "H":
                for n, d, v in r.tags:
                    have.setdefault(n, set()).add((d, S.canon_tag(n, d, v)[2]))
        for n, d, v in rec.tags:
            if n in ("VN", "TS") and n in have and (d, S.canon_tag(n, d, v)[2]) not in have[n]:
                return True
        return False

    def add_verdict(self, rec):
        """'ok' | 'merge' (documented merge) | 'dup' (NotUniqueError expected) | 'unspec' | 'fail'."""
        n = ident(rec)
        if rec.rt == "H":
            if self.header_conflict(rec):
                return "fail"
            vn = rec.tag("VN")
            if vn and vn[1] != {"gfa1": "1.0", "gfa2": "2.0"}[self.version]:
                return "fail"
            return "ok"
        if self.mention_conflict(rec):
            return "unspec"
        if n is not None and any(m == n for m, role in mentions(rec)):
            return "unspec"         # a record which mentions its own identifier
        if self.version == "gfa2" and rec.rt in ("E", "F", "S"):
            # positions are checked against the segment length by validate(), not by add_line():
            # a step which makes them disagree denotes an invalid text, yet need not fail
            names = self.names()
            if rec.rt == "S":
                try:
                    if not all(positions_fit(x, rec.pos[0], int(rec.pos[1])) for x in self.recs if x.rt in ("E", "F")):
                        return "unspec"
                except ValueError:
                    return "unspec"
            else:
                for m, role in mentions(rec):
                    t = names.get(m)
                    if t is not None and t.rt == "S":
                        try:
                            if not positions_fit(rec, m, int(t.pos[1])):
                                return "unspec"
                        except ValueError:
                            return "unspec"
        if n is not None and n not in self.names():
            # the new identifier is mentioned somewhere in a role the record cannot play
            for x in self.recs:
                for m, role in mentions(x):
                    if m == n and ((role == "seg" and rec.rt != "S") or
                                   (role == "item" and rec.rt not in (("S", "E", "O") if x.rt == "O"
                                                                      else ("S", "E", "O", "U", "G")))):
                        return "unspec"
        if rec.rt == "L" and self.version == "gfa1":
            e = self.find_equivalent_link(rec)
            if e is not None:
                # identical duplicate: UNSPECIFIED; complement: documented merge
                if e.pos[:5] == rec.pos[:5] and S.link_complement_pos(rec.pos[:5]) != rec.pos[:5]:
                    return "unspec"
                return "merge"
            # a parallel link (same segment ends, another overlap): whether it is a duplicate
            # depends on the overlaps (a placeholder overlap matches any) — UNSPECIFIED
            for r in self.recs:
                if r.rt == "L" and (r.pos[:4] == rec.pos[:4] or
                                    r.pos[:4] == S.link_complement_pos(rec.pos[:5])[:4]) and \
                        (r.pos[4] == "*" or rec.pos[4] == "*"):
                    return "unspec"
        if n is None:
            return "ok"
        prev = self.by_name(n)
        if prev is None:
            return "ok"
        if rec.rt in ("O", "U") and prev.rt == rec.rt:
            have = {t[0]: t for t in prev.tags}
            for t in rec.tags:
                if t[0] in have and S.canon_tag(*have[t[0]]) != S.canon_tag(*t):
                    # the same tag defined differently on two lines of a group: which one holds, or
                    # whether the line is refused, is not specified
                    return "unspec"
            return "merge"
        if rec.rt in ("O", "U") and prev.rt in ("O", "U"):
            return "unspec"
        return "dup"

    def add(self, rec):
        rec = Rec(rec.rt, rec.pos, rec.tags, rec.version or self.version, rec.raw)
        v = self.add_verdict(rec)
        if v == "merge":
            if rec.rt == "L":
                return v
            prev = self.by_name(ident(rec))
            sep = " "
            prev.pos[1] = (prev.pos[1] + sep + rec.pos[1]) if prev.pos[1] else rec.pos[1]
            have = {t[0] for t in prev.tags}
            for t in rec.tags:
                if t[0] not in have:
                    prev.tags.append(t)
            return v
        if v in ("dup", "unspec"):
            return v
        self.recs.append(self._new(rec))
        return v

    def remove(self, rec):
        """remove rec and, transitively, its documented dependants (Appendix C)."""
        todo = [rec]
        removed = []
        while todo:
            r = todo.pop()
            if r not in self.recs:
                continue
            self.recs.remove(r)
            removed.append(r)
            n = ident(r)
            v = self.version
            if r.rt == "S":
                sid = r.pos[0]
                for x in list(self.recs):
                    if any(m == sid and role == "seg" for m, role in mentions(x)):
                        todo.append(x)
                    elif v == "gfa2" and x.rt in ("O", "U") and any(m == sid for m, role in mentions(x)):
                        todo.append(x)
            elif r.rt == "L" and v == "gfa1":
                for x in list(self.recs):
                    if x.rt == "P" and any(link_supports(r, st) for st in path_steps(x)):
                        # still supported by another (parallel) link?  the model keeps it simple:
                        # the generators never let two links support the same step
                        todo.append(x)
            elif r.rt in ("E", "O", "U") and v == "gfa2" and n is not None:
                for x in list(self.recs):
                    if x.rt in ("O", "U") and any(m == n for m, role in mentions(x)):
                        if r.rt == "U" and x.rt == "O":
                            continue
                        todo.append(x)
            elif r.rt == "G" and v == "gfa2" and n is not None:
                for x in list(self.recs):
                    # an ordered group cannot go on without one of its steps
                    if x.rt == "O" and any(m == n for m, role in mentions(x)):
                        todo.append(x)
                for x in self.recs:
                    if x.rt == "U":
                        items = x.pos[1].split(" ")
                        if n in items:
                            x.pos[1] = " ".join(i for i in items if i != n)
        return removed

    def rename(self, rec, new):
        """rewrite rec's identifier to `new` at every mention."""
        old = ident(rec)
        v = self.version
        if rec.rt == "S":
            rec.pos[0] = new
        elif v == "gfa1" and rec.rt == "P":
            rec.pos[0] = new
        elif v == "gfa1" and rec.rt in ("L", "C"):
            rec.tags = [(n, d, (new if n == "ID" else val)) for n, d, val in rec.tags]
            return
        else:
            rec.pos[0] = new
        for x in self.recs:
            if x is rec:
                pass
            rt = x.rt
            if v == "gfa1":
                if rec.rt != "S":
                    continue
                if rt in ("L", "C"):
                    if x.pos[0] == old:
                        x.pos[0] = new
                    if x.pos[2] == old:
                        x.pos[2] = new
                elif rt == "P":
                    x.pos[1] = ",".join((new + s[-1]) if s[:-1] == old else s for s in x.pos[1].split(","))
            else:
                if rt in ("E", "G") and rec.rt == "S":
                    for i in (1, 2):
                        if x.pos[i][:-1] == old:
                            x.pos[i] = new + x.pos[i][-1]
                elif rt == "F" and rec.rt == "S":
                    if x.pos[0] == old:
                        x.pos[0] = new
                if rt == "O":
                    x.pos[1] = " ".join((new + s[-1]) if s[:-1] == old else s for s in x.pos[1].split(" "))
                elif rt == "U":
                    x.pos[1] = " ".join(new if s == old else s for s in x.pos[1].split(" "))

    def set_tag(self, rec, name, dt, value):
        for i, (n, d, v) in enumerate(rec.tags):
            if n == name:
                rec.tags[i] = (name, dt, value)
                return
        rec.tags.append((name, dt, value))

    def del_tag(self, rec, name):
        rec.tags = [t for t in rec.tags if t[0] != name]

    def unspecified_state(self):
        """reasons why the current text is outside what the specification pins down."""
        why = []
        for r in self.recs:
            if r.rt in ("O", "U") and r.pos[1].strip() == "":
                why.append("empty group")
        return why
