"""Worker-side context: counters, violations, samples, non-trivial accounting."""
import hashlib
import json
import os
import time


def h64(obj):
    s = obj if isinstance(obj, str) else json.dumps(obj, sort_keys=True, default=repr)
    return int.from_bytes(hashlib.blake2b(s.encode("utf8", "surrogatepass"), digest_size=8).digest(), "big")


def level_of(ctx, obj):
    """a validation level (0-3) derived from the case content: operations on valid input must work
    at every level, and the choice is reproducible in replays."""
    lvl = h64([str(x) for x in obj] if isinstance(obj, (list, tuple)) else str(obj)) % 5
    lvl = 1 if lvl == 4 else lvl
    ctx.count("built_at_level_%d" % lvl)
    return lvl


class HarnessError(Exception):
    """raised by harness code when it cannot do its job (=> inconclusive, never a violation)"""


class Ctx:
    def __init__(self, prop, tier, seed, shard, nshards, budget_s):
        self.prop = prop
        self.tier = tier
        self.seed = seed
        self.shard = shard
        self.nshards = nshards
        self.budget_s = budget_s
        self.t0 = time.monotonic()
        self.counters = {}
        self.violations = []       # dict(key, detail, case, prop)
        self.vkeys = {}            # key -> count
        self.bystanders = {}       # (prop,key) -> count
        self.bystander_samples = {}
        self.samples = []
        self.nontrivial = set()
        self.nontrivial_enum = 0
        self.sets = {}             # name -> set of small hashables (distinct states etc.)
        self.inconclusive = []
        self.case = None           # current case (for violation attribution)
        self.case_index = -1
        self.max_samples = 3
        self.notes = {}

    # -- accounting
    def count(self, name, n=1):
        self.counters[name] = self.counters.get(name, 0) + n

    def add(self, setname, item):
        self.sets.setdefault(setname, set()).add(item)

    def nontriv(self, descriptor):
        self.nontrivial.add(h64(descriptor))

    def nontriv_enum(self, n=1):
        self.nontrivial_enum += n

    def sample(self, case):
        if len(self.samples) < self.max_samples:
            self.samples.append(case)

    def out_of_time(self):
        # the budget is CPU time of the worker (so that the number of cases explored does not
        # depend on what else the machine is doing), with a wall-clock cap
        t = os.times()
        cpu = t.user + t.system + t.children_user + t.children_system
        if not hasattr(self, "cpu0"):
            self.cpu0 = cpu
        return (cpu - self.cpu0) > self.budget_s or (time.monotonic() - self.t0) > 4 * self.budget_s

    # -- verdict events
    def violation(self, key, detail, case=None, prop=None):
        """record a violation of property `prop` (default: the property under check).
        Violations of other properties are bystanders: reported, never decide the exit code."""
        prop = prop or self.prop
        case = case if case is not None else self.case
        if prop != self.prop:
            k = "%s %s" % (prop, key)
            self.bystanders[k] = self.bystanders.get(k, 0) + 1
            if k not in self.bystander_samples:
                self.bystander_samples[k] = {"detail": str(detail)[:600], "case": case}
            return
        self.vkeys[key] = self.vkeys.get(key, 0) + 1
        # keep the first few witnesses per key, smallest first
        size = len(json.dumps(case, default=repr)) if case is not None else 0
        kept = [v for v in self.violations if v["key"] == key]
        if len(kept) < 3:
            self.violations.append({"key": key, "detail": str(detail)[:2000], "case": case,
                                    "size": size, "index": self.case_index})
        else:
            big = max(kept, key=lambda v: v["size"])
            if size < big["size"]:
                big.update({"detail": str(detail)[:2000], "case": case, "size": size,
                            "index": self.case_index})

    def inconc(self, reason):
        if len(self.inconclusive) < 20:
            self.inconclusive.append(str(reason)[-1500:])
        self.count("inconclusive_cases")

    def summary(self):
        return {
            "type": "summary", "shard": self.shard,
            "counters": self.counters,
            "violations": self.violations, "vkeys": self.vkeys,
            "bystanders": self.bystanders, "bystander_samples": self.bystander_samples,
            "samples": self.samples,
            "nontrivial": sorted(self.nontrivial), "nontrivial_enum": self.nontrivial_enum,
            "sets": {k: sorted(v, key=repr) for k, v in self.sets.items()},
            "inconclusive": self.inconclusive,
            "notes": self.notes,
            "wall_s": time.monotonic() - self.t0,
        }
