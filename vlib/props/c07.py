"""C07 — only gfapy.Error exceptions escape, whatever the input; calls terminate
(restated as bounded progress: logical step budget per public call)."""
import os
import shutil
import subprocess
import sys
import random
import tempfile
import gfapy
from ..gen import docs as G
from ..gen import hostile as HG
from ..mon.client import call
from ..mon import hooks
from ..mon.sysmon import StepBudgetExceeded

from . import history as HIST

ID = "C07"
PROBES = ("raise", "lines", "steps")
NAMES = ["", "xx", "name", "sid", "nosuch", "1a", "a b", "LN", "ID", "VN", "TS", "sequence", "from_segment", "items",
         "slen", "overlap", "x", "xyz", "record_type", "field1", "*", "A", "é", "co", "\t", "a\nb",
         # the field names of every record type (edits of connected lines, then removals)
         "external", "sid1", "sid2", "eid", "gid", "oid", "uid", "path_name", "segment_names", "overlaps", "beg1", "end1",
         "beg2", "end2", "alignment", "disp", "var", "from_orient", "to_segment", "to_orient", "pos", "s_beg", "s_end",
         "f_beg", "f_end", "KC", "RC", "container", "contained"]
VALUES = ["", "*", "1", "-1", "a b", "a\tb", "a\nb", "é", "{", "[1", "1,2", "A+", "1M", "zz", " ", "+", "0$", "$",
          "read9+", "x-", "A", "5", "10$", "A+ B-", "A+,B-"]
_tmp = None


def setup(ctx):
    global _tmp
    _tmp = tempfile.mkdtemp(prefix="verif-c07-")
    hooks.RATE = 25
    HIST.PROBE_RATE = 0.3
    ctx.max_steps_per_byte = 0.0
    ctx.max_steps = 0


def finish(ctx):
    if _tmp:
        shutil.rmtree(_tmp, ignore_errors=True)
    ctx.notes["max_steps_in_one_call"] = ctx.max_steps
    ctx.notes["max_steps_per_input_byte"] = round(ctx.max_steps_per_byte, 1)


SYS_DOCS = {
    "gfa1": ["H\tVN:Z:1.0\txx:i:1", "S\tA\t*\txx:i:1", "S\tB\tACGT", "L\tA\t+\tB\t-\t2M\tID:Z:l1",
             "C\tA\t+\tB\t-\t1\t2M\tID:Z:c1", "P\tp\tA+,B-\t2M"],
    "gfa2": ["H\tVN:Z:2.0", "S\tA\t10\t*\txx:i:1", "S\tB\t10\t*", "E\te1\tA+\tB-\t5\t10$\t5\t10$\t2M",
             "F\tA\tr+\t0\t5\t0\t5\t*", "G\tg1\tA+\tB-\t5\t*", "O\to1\tA+ e1+ B-", "U\tu1\tA B e1",
             "X\tabc\tdef\txx:i:1"],
}
SYS_ATOMS = ["", "*", "+", "-", "0", "-1", "1$", "$", "A", "b", "zz", "A+", "B-", "Ax", "A+,B-", "A+ B-", "A+,zz-", "1M",
             "1,2", "xx:i:1", "xx:J:{", " ", "\x00", "\u00e9", "1e5", "x" * 300, "e1", "e1+", "u1", "p", "o1-", "3X",
             "10", "11$", "A B zz", "A+ zz+", "xx:J:" + "[" * 6000 + "]" * 6000,
             # the tag which names a GFA1 edge, with values which are no identifiers
             "ID:J:[1]", "ID:B:i,1", "ID:i:5", "ID:J:{\"a\":1}", "ID:Z:A", "ID:f:1.5", "ID:H:1A",
             # ... and the header tags which gfapy itself reads, with values of other datatypes
             "VN:J:[1]", "VN:B:i,1", "VN:i:1", "VN:J:{\"a\":1}", "VN:f:1.0", "TS:J:[1]", "TS:Z:x", "VN:Z:1.0", "VN:Z:2.0"]


def sys_cases():
    """every field of every record type replaced, one at a time, by every atom: the document is
    built at each validation level and then swept (DESIGN C07, systematic stratum)."""
    out = []
    for ver, doc in SYS_DOCS.items():
        for li, line in enumerate(doc):
            f = line.split("\t")
            for fi in range(len(f)):
                for atom in SYS_ATOMS:
                    if f[fi] == atom:
                        continue
                    g = list(f)
                    g[fi] = atom
                    lines = list(doc)
                    lines[li] = "\t".join(g)
                    for lvl in (0, 1, 3):
                        out.append({"k": "sys", "lines": lines, "vlevel": lvl, "version": ver if (li + fi) % 2 else None,
                                    "dialect": "standard", "entry": "list" if (li + fi + lvl) % 3 else "add",
                                    "slot": "%s/%s.%d" % (ver, f[0], fi), "seed": 0})
    return out


def cases(rng, tier, shard, nshards):
    for i, c in enumerate(sys_cases()):
        if i % nshards == shard:
            yield c
    while True:
        r = rng.random()
        if rng.random() < 0.002:
            # a valid document with deeply nested groups, then the removal of the segment they rest on
            yield {"k": "deep", "n": rng.choice([40, 250, 400, 1200]), "rt": rng.choice("OU"), "vlevel": rng.choice([0, 1]),
                   "what": rng.choice(["rm-segment", "rm-segment", "rm-inner-group", "write+validate"])}
            continue
        if rng.random() < 0.03:
            # the public parsers of field values (positions, alignments, arrays, oriented names, segment
            # ends) take the same strings the fields take
            pool = SYS_ATOMS + ["", "$", "5$", "5$$", "-1", " 5", "5 ", "\u0663", "1_0", "1M,", "1,2", "0a", "zz", "c,1", "f,",
                                "i,1,x", "C,256", "f,1e999", "a+", "+", "a\tb", "\n", "1" * 5000, "(" * 3000]
            yield {"k": "value-parsers", "atoms": [rng.choice(pool) for _ in range(12)] + [HG.hostile_line(rng)[:40] for _ in range(4)]}
            continue
        if rng.random() < 0.06:
            # a line object of a valid document gets one of its fields re-assigned as a string which is
            # valid for that field but does not fit the rest of the line (a list of another length, the
            # field of another line of the same type), and is then added to the Gfa of the other lines
            d1 = G.gen_doc(rng, canonical=True)
            d2 = G.gen_doc(rng, version=d1.version, canonical=True)
            yield {"k": "edit-add", "lines": d1.lines(), "donors": d2.lines(), "version": d1.version,
                   "vlevel": rng.choice([0, 1, 2, 3]), "seed": rng.getrandbits(32)}
            continue
        cfg = {"vlevel": rng.choice([0, 0, 1, 1, 2, 3]), "version": rng.choice([None, None, "gfa1", "gfa2"]),
               "dialect": rng.choice(["standard", "standard", "standard", "rgfa"])}
        if r < 0.35:
            yield dict(cfg, k="line", line=HG.hostile_line(rng), seed=rng.getrandbits(32))
        elif r < 0.85:
            yield dict(cfg, k="doc", lines=HG.hostile_doc(rng), entry=rng.choice(["str", "list", "file", "add"]),
                       seed=rng.getrandbits(32))
        elif r < 0.90:
            # histories of API calls with valid and invalid arguments (additions, removals,
            # renames, edits of tags and of the fields of connected lines, probes)
            c = HIST.gen_history(rng, nsteps=rng.randint(4, 16), failing=0.35, fanout=rng.random() < 0.5,
                                 tags=rng.random() < 0.3)
            c["k"] = "history"
            yield c
        elif r < 0.95:
            d = G.gen_doc(rng, canonical=rng.random() < 0.5)
            yield dict(cfg, k="doc", lines=d.lines(), entry=rng.choice(["str", "list", "file", "add"]),
                       seed=rng.getrandbits(32), version=rng.choice([None, d.version]))
        else:
            yield dict(cfg, k="cli", lines=HG.hostile_doc(rng) if rng.random() < 0.7 else G.gen_doc(rng).lines())


def guarded(ctx, what, nbytes, fn, *a, **k):
    """client call under the logical step budget."""
    p = ctx.probes
    p.steps = 0
    p.step_limit = 5_000_000 + 5000 * nbytes
    try:
        out = call(ctx, what, fn, *a, **k)
    except StepBudgetExceeded:
        p.step_limit = None
        ctx.count("step_budget_exceeded")
        ctx.violation("step-budget-exceeded@" + what, "%s exceeded %d logical steps on an input of %d bytes"
                      % (what, 5_000_000 + 5000 * nbytes, nbytes))
        return None
    finally:
        p.step_limit = None
    ctx.count("public_calls")
    if p.steps > ctx.max_steps:
        ctx.max_steps = p.steps
    if nbytes >= 20 and p.steps / nbytes > ctx.max_steps_per_byte:
        ctx.max_steps_per_byte = p.steps / nbytes
    if out.kind == "gfapy":
        ctx.count("gfapy_errors")
    elif out.kind == "foreign":
        ctx.count("foreign_exceptions")
    return out


def poke_line(ctx, rng, line, nbytes):
    """follow-up public calls on a line with hostile names and values."""
    for _ in range(6):
        n = rng.choice(NAMES)
        v = rng.choice(VALUES)
        op = rng.randrange(12)
        if op == 0:
            guarded(ctx, "line.get", nbytes, line.get, n)
        elif op == 1:
            guarded(ctx, "line.set", nbytes, line.set, n, v)
        elif op == 2:
            guarded(ctx, "line.validate", nbytes, line.validate)
        elif op == 3:
            guarded(ctx, "line.validate_field", nbytes, line.validate_field, n)
        elif op == 4:
            guarded(ctx, "line.field_to_s", nbytes, line.field_to_s, n, rng.random() < 0.5)
        elif op == 5:
            guarded(ctx, "str(line)", nbytes, str, line)
        elif op == 6:
            guarded(ctx, "repr(line)", nbytes, repr, line)
        elif op == 7:
            guarded(ctx, "line.try_get", nbytes, line.try_get, n)
        elif op == 8:
            guarded(ctx, "line.delete", nbytes, line.delete, n)
        elif op == 9:
            guarded(ctx, "line.get_datatype", nbytes, line.get_datatype, n)
        elif op == 10:
            guarded(ctx, "line.set_datatype", nbytes, line.set_datatype, n, rng.choice(["i", "Z", "q", "", "J"]))
        else:
            guarded(ctx, "line.tagnames", nbytes, lambda: (line.tagnames, line.positional_fieldnames))
    rtr = call(ctx, "line.record_type", lambda: line.record_type)
    rt = rtr.value if rtr.ok else None
    if rt == "O":
        guarded(ctx, "group.captured_path", nbytes, lambda: line.captured_path)
    elif rt == "U":
        guarded(ctx, "group.induced_set", nbytes, lambda: line.induced_set)
    elif rt == "P":
        guarded(ctx, "path.captured_path", nbytes, lambda: line.captured_path)
    for l in ():
        pass


def poke_gfa(ctx, rng, g, nbytes):
    ids = list(NAMES)
    r = guarded(ctx, "gfa.names", nbytes, lambda: list(g.names))
    if r is not None and r.ok:
        ids += [x for x in r.value if isinstance(x, str)][:5]
    for _ in range(8):
        i = rng.choice(ids)
        op = rng.randrange(14)
        if op >= 12:
            # removal of a line instance obtained from the Gfa (possibly edited before)
            r = guarded(ctx, "gfa.lines", nbytes, lambda: [l for l in g.lines if l.record_type != "H"])
            if r is not None and r.ok and r.value:
                l = rng.choice(r.value)
                if op == 12:
                    guarded(ctx, "gfa.rm(line)", nbytes, g.rm, l)
                else:
                    guarded(ctx, "line.disconnect", nbytes, l.disconnect)
        elif op == 10:
            guarded(ctx, "gfa.select(name)", nbytes, g.select, {"name": i})
        elif op == 11:
            guarded(ctx, "gfa.fragments_for_external", nbytes, g.fragments_for_external, i)
        elif op == 0:
            guarded(ctx, "gfa.line", nbytes, g.line, i)
        elif op == 1:
            guarded(ctx, "gfa.segment", nbytes, g.segment, i)
        elif op == 2:
            guarded(ctx, "gfa.try_get_line", nbytes, g.try_get_line, i)
        elif op == 3:
            guarded(ctx, "gfa.try_get_segment", nbytes, g.try_get_segment, i)
        elif op == 4:
            guarded(ctx, "str(gfa)", nbytes, str, g)
        elif op == 5:
            guarded(ctx, "gfa.validate", nbytes, g.validate)
        elif op == 6:
            guarded(ctx, "gfa.rm", nbytes, g.rm, i)
        elif op == 7:
            guarded(ctx, "gfa.add_line", nbytes, g.add_line, HG.hostile_line(rng))
        elif op == 8:
            r = guarded(ctx, "gfa.lines", nbytes, lambda: list(g.lines))
            if r is not None and r.ok and r.value:
                poke_line(ctx, rng, rng.choice(r.value), nbytes)
        else:
            guarded(ctx, "gfa.collections", nbytes,
                    lambda: (g.segments, g.edges, g.paths, g.sets, g.gaps, g.fragments, g.comments,
                             g.custom_records, g.headers, g.segment_names, g.edge_names, g.path_names))


def sweep_gfa(ctx, g, nb):
    """deterministic sweep over a Gfa built from a hostile document: every public read on every
    line, the validations, the writers, then the removal of every line."""
    guarded(ctx, "gfa.names", nb, lambda: list(g.names))
    guarded(ctx, "str(gfa)", nb, str, g)
    guarded(ctx, "gfa.validate", nb, g.validate)
    guarded(ctx, "gfa.collections", nb,
            lambda: (g.segments, g.edges, g.paths, g.sets, g.gaps, g.fragments, g.comments, g.custom_records,
                     g.headers, g.segment_names, g.edge_names, g.path_names, g.external_names))
    r = guarded(ctx, "gfa.lines", nb, lambda: list(g.lines))
    lines = r.value if (r is not None and r.ok) else []
    for l in lines:
        guarded(ctx, "str(line)", nb, str, l)
        guarded(ctx, "line.validate", nb, l.validate)
        fr = guarded(ctx, "line.tagnames", nb, lambda: list(l.positional_fieldnames) + list(l.tagnames))
        for f in (fr.value if (fr is not None and fr.ok) else []):
            guarded(ctx, "line.get", nb, l.get, f)
            guarded(ctx, "line.field_to_s", nb, l.field_to_s, f, True)
            guarded(ctx, "line.validate_field", nb, l.validate_field, f)
        rtr = call(ctx, "line.record_type", lambda: l.record_type)
        rt = rtr.value if rtr.ok else None
        if rt in ("O", "P"):
            guarded(ctx, "group.captured_path", nb, lambda: l.captured_path)
        elif rt == "U":
            guarded(ctx, "group.induced_set", nb, lambda: l.induced_set)
    # (graph operations and queries which take no string from the caller are outside the claim,
    #  DESIGN 9.5)
    for l in lines:
        if call(ctx, "line.record_type", lambda: l.record_type).value != "H":
            guarded(ctx, "gfa.rm(line)", nb, g.rm, l)
    guarded(ctx, "str(gfa)", nb, str, g)


VALUE_PARSERS = [("LastPos", lambda s: gfapy.LastPos(s)), ("Alignment", lambda s: gfapy.Alignment(s)),
                 ("Alignment(gfa1)", lambda s: gfapy.Alignment(s, version="gfa1")),
                 ("Alignment(gfa2)", lambda s: gfapy.Alignment(s, version="gfa2")),
                 ("ByteArray", lambda s: gfapy.ByteArray(s)), ("NumericArray.from_string", lambda s: gfapy.NumericArray.from_string(s)),
                 ("posvalue", lambda s: gfapy.posvalue(s)), ("SegmentEnd", lambda s: gfapy.SegmentEnd(s)),
                 ("OrientedLine", lambda s: gfapy.OrientedLine(s)), ("SegmentEnd.validate", lambda s: gfapy.SegmentEnd(s).validate()),
                 ("OrientedLine.validate", lambda s: gfapy.OrientedLine(s).validate()), ("invert", lambda s: gfapy.invert(s))]


def run_value_parsers(case, ctx):
    for a in case["atoms"]:
        for name, fn in VALUE_PARSERS:
            guarded(ctx, name + "(str)", len(a.encode("utf8", "replace")), fn, a)
            ctx.count("value_parser_calls")
    ctx.nontriv(case["atoms"][:3])


def run_edit_add(case, ctx):
    rng = random.Random(case["seed"])
    lines, version, vlevel = case["lines"], case["version"], case["vlevel"]
    cand = [i for i, l in enumerate(lines) if l.split("\t")[0] in ("L", "C", "P", "E", "G", "F", "O", "U")]
    if not cand:
        return
    i = rng.choice(cand)
    rest = lines[:i] + lines[i + 1:]
    nb = sum(len(l) + 1 for l in lines)
    rt = lines[i].split("\t")[0]
    lr = guarded(ctx, "Line(str)", nb, gfapy.Line, lines[i], vlevel=vlevel, version=version)
    if lr is None or not lr.ok:
        return
    line = lr.value
    fns = call(ctx, "positional_fieldnames", lambda: list(line.positional_fieldnames))
    if not fns.ok or not fns.value:
        return
    fn = rng.choice(fns.value)
    cur = call(ctx, "field_to_s", line.field_to_s, fn)
    if not cur.ok:
        return
    donors = [l for l in case["donors"] + lines if l.split("\t")[0] == rt and l != lines[i]]
    value = None
    how = rng.choice(["donor", "shorter", "longer", "donor"])
    if how == "donor" and donors:
        dl = call(ctx, "Line(str)", gfapy.Line, rng.choice(donors), vlevel=0, version=version)
        if dl.ok:
            dv = call(ctx, "field_to_s", dl.value.field_to_s, fn)
            if dv.ok:
                value = dv.value
    if value is None:
        sep = "," if "," in cur.value else " "
        parts = cur.value.split(sep)
        if how == "shorter" and len(parts) > 1:
            value = sep.join(parts[:rng.randint(1, len(parts) - 1)])
        else:
            value = sep.join(parts + parts[:rng.randint(1, len(parts))])
    ctx.count("edited_lines_added")
    ctx.add("edited_fields", "%s.%s" % (rt, fn))
    r = guarded(ctx, "line.set (unconnected line)", nb, line.set, fn, value)
    gr = guarded(ctx, "Gfa(list)", nb, gfapy.Gfa, list(rest), version=version, vlevel=vlevel)
    if gr is None or not gr.ok:
        return
    g = gr.value
    guarded(ctx, "gfa.add_line(edited line)", nb, g.add_line, line)
    guarded(ctx, "gfa.validate", nb, g.validate)
    guarded(ctx, "str(gfa)", nb, str, g)
    if rng.random() < 0.5:
        poke_gfa(ctx, rng, g, nb)
    else:
        sweep_gfa(ctx, g, nb)
    ctx.nontriv([rt, fn, how, vlevel])


def run(case, ctx):
    import random
    k = case["k"]
    before_sites = len(ctx.probes.raise_sites)
    if k == "history":
        # every call goes through mon.client.call: a foreign exception is a C07 violation here
        HIST.run_history(case, ctx, compare_every=False)
        ctx.count("histories")
        return
    if k == "cli":
        return run_cli(case, ctx)
    if k == "edit-add":
        return run_edit_add(case, ctx)
    if k == "value-parsers":
        return run_value_parsers(case, ctx)
    if k == "deep":
        n, rt = case["n"], case["rt"]
        o = "+" if rt == "O" else ""
        lines = ["S\ta\t10\t*", "S\tb\t10\t*", "E\te\ta+\tb+\t5\t10$\t0\t5\t*",
                 "%s\tp0\t%s" % (rt, "a+ e+ b+" if rt == "O" else "a e b")]
        lines += ["%s\tp%d\tp%d%s" % (rt, i, i - 1, o) for i in range(1, n)]
        nb = sum(len(l) + 1 for l in lines)
        r = guarded(ctx, "Gfa(list) (deep nesting)", nb, gfapy.Gfa, lines, version="gfa2", vlevel=case["vlevel"])
        ctx.count("deep_nesting_documents")
        if r is None or not r.ok:
            return
        g = r.value
        if case["what"] == "rm-segment":
            guarded(ctx, "gfa.rm(name) (deep nesting)", nb, g.rm, "a")
        elif case["what"] == "rm-inner-group":
            guarded(ctx, "gfa.rm(name) (deep nesting)", nb, g.rm, "p0")
        else:
            guarded(ctx, "str(gfa) (deep nesting)", nb, str, g)
            guarded(ctx, "gfa.validate (deep nesting)", nb, g.validate)
        guarded(ctx, "str(gfa) (deep nesting)", nb, str, g)
        return
    rng = random.Random(case["seed"])
    kw = {"vlevel": case["vlevel"], "dialect": case["dialect"]}
    if case["version"]:
        kw["version"] = case["version"]
    if k == "line":
        line = case["line"]
        nb = len(line.encode("utf8", "surrogatepass"))
        r = guarded(ctx, "Line(str)", nb, gfapy.Line, line, **kw)
        if r is not None and r.ok:
            poke_line(ctx, rng, r.value, nb)
    else:
        lines = case["lines"]
        text = "\n".join(lines)
        nb = len(text.encode("utf8", "surrogatepass"))
        e = case["entry"]
        if e == "str":
            r = guarded(ctx, "Gfa(str)", nb, gfapy.Gfa, text, **kw)
        elif e == "list":
            r = guarded(ctx, "Gfa(list)", nb, gfapy.Gfa, list(lines), **kw)
        elif e == "file":
            fn = os.path.join(_tmp, "in.gfa")
            try:
                data = (text + "\n").encode("utf8")
            except UnicodeEncodeError:
                return
            if case["seed"] % 5 == 0:
                # a file is a string of bytes: bytes which are not UTF-8 text (a lone 0xFF, a
                # truncated multi-byte sequence, a Latin-1 letter, a UTF-16 byte order mark)
                brng = random.Random(case["seed"])
                for _ in range(brng.randint(1, 3)):
                    pos = brng.randint(0, len(data))
                    data = data[:pos] + brng.choice([b"\xff", b"\xc3", b"\xe9", b"\x80", b"\xff\xfe", b"\xf0\x9f"]) + data[pos:]
                ctx.count("files_with_undecodable_bytes")
            with open(fn, "wb") as f:
                f.write(data)
            if case["seed"] % 3 == 0:
                # read_file with progress logging (the file is read twice: once to count its lines)
                def read_with_progress():
                    g_ = gfapy.Gfa(**kw)
                    with open(os.devnull, "w") as sink:
                        g_.enable_progress_logging(part=0.5, channel=sink)
                        g_.read_file(fn)
                    return g_
                r = guarded(ctx, "Gfa.read_file (progress logging)", nb, read_with_progress)
                ctx.count("files_read_with_progress_logging")
            else:
                r = guarded(ctx, "Gfa.from_file", nb, gfapy.Gfa.from_file, fn, **kw)
        else:
            r = guarded(ctx, "Gfa()", nb, gfapy.Gfa, **kw)
            if r is not None and r.ok:
                g = r.value
                for l in lines:
                    guarded(ctx, "gfa.add_line", nb, g.add_line, l)
                guarded(ctx, "gfa.process_line_queue", nb, g.process_line_queue)
        if r is not None and r.ok:
            if k == "sys":
                ctx.count("systematic_documents")
                ctx.add("systematic_slots", case["slot"])
                sweep_gfa(ctx, r.value, nb)
            else:
                poke_gfa(ctx, rng, r.value, nb)
    new_sites = len(ctx.probes.raise_sites) - before_sites
    if new_sites > 0:
        ctx.nontriv(case)
    ctx.sample(case)


def run_cli(case, ctx):
    """bin/gfapy-validate on a generated file: exit status 0/1 and no traceback."""
    root = os.environ.get("GFAPY_ROOT", "/repo")
    fn = os.path.join(_tmp, "cli.gfa")
    try:
        with open(fn, "w", encoding="utf8", newline="") as f:
            f.write("\n".join(case["lines"]) + "\n")
    except UnicodeEncodeError:
        return
    env = dict(os.environ)
    try:
        p = subprocess.run([sys.executable, "-B", os.path.join(root, "bin", "gfapy-validate"), fn],
                           capture_output=True, text=True, timeout=120, env=env)
    except subprocess.TimeoutExpired:
        ctx.inconc("gfapy-validate watchdog")
        return
    ctx.count("cli_runs")
    if "Traceback (most recent call last)" in p.stderr:
        last = [l for l in p.stderr.strip().split("\n") if l.strip()][-1]
        cls = last.split(":")[0].strip()
        if not cls.startswith("gfapy."):
            ctx.violation("cli-traceback/%s" % cls.split(".")[-1], "gfapy-validate printed a traceback: %s" % last[:300])
        else:
            ctx.count("cli_gfapy_error_traceback")
    if p.returncode not in (0, 1):
        ctx.violation("cli-exit-status/%d" % p.returncode, p.stderr[-300:])
