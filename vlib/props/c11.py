"""C11 — segment neighbourhoods match the specification's edge semantics."""
import itertools
import gfapy
from ..gen import docs as G
from ..mon import hooks
from ..mon.client import call
from . import topo

from ..ctx import level_of

ID = "C11"
KINDS = ["empty_pfx", "pfx", "whole", "inner", "empty_inner", "sfx", "empty_sfx"]
SLEN = 10


def setup(ctx):
    hooks.RATE = 20
    from . import history as H
    H.PROBE_RATE = 0.4


def ivl(kind, i=0):
    return {"empty_pfx": ("0", "0"), "pfx": ("0", str(3 + i % 3)), "whole": ("0", "10$"), "inner": (str(2 + i % 2), str(6 + i % 3)),
            "empty_inner": ("4", "4"), "sfx": (str(5 + i % 4), "10$"), "empty_sfx": ("10$", "10$")}[kind]


def table_cells():
    i = 0
    for (o1, o2) in itertools.product("+-", repeat=2):
        for k1 in KINDS:
            for k2 in KINDS:
                for (a, b) in (("A", "B"), ("B", "A")):
                    yield (i, o1, o2, k1, k2, a, b)
                    i += 1


def eline(cell, eid="*"):
    i, o1, o2, k1, k2, a, b = cell
    b1, e1 = ivl(k1, i)
    b2, e2 = ivl(k2, i + 1)
    return "E\t%s\t%s%s\t%s%s\t%s\t%s\t%s\t%s\t*" % (eid, a, o1, b, o2, b1, e1, b2, e2)


BASE2 = ["S\tA\t10\t*", "S\tB\t10\t*"]


def cases(rng, tier, shard, nshards):
    cells = list(table_cells())
    for c in cells:
        if c[0] % nshards == shard:
            yield {"k": "cell", "cell": list(c)}
    if shard == 0:
        yield {"k": "table-together"}
    # L / C / G x 4 orientation pairs x segment pairs incl. self links
    j = 0
    for (o1, o2) in itertools.product("+-", repeat=2):
        for (a, b) in (("A", "B"), ("A", "A"), ("B", "A")):
            for rt in ("L", "C", "G", "Eself"):
                if j % nshards == shard:
                    yield {"k": "lcg", "rt": rt, "o1": o1, "o2": o2, "a": a, "b": b}
                j += 1
    yield {"k": "marker-exhaustive-done"}
    from . import history as H
    while True:
        if rng.random() < 0.3:
            # arbitrary mutation histories (forward references, renames onto placeholders,
            # removals with cascades, re-additions): the collections are judged after every step
            c = H.gen_history(rng, nsteps=rng.randint(3, 12), failing=0.3, fanout=True, tags=False)
            c["k"] = "history"
            yield c
            continue
        version = rng.choice(["gfa1", "gfa2"])
        if version == "gfa1":
            d = G.gen_gfa1(rng, nseg=rng.randint(1, 4), nlinks=rng.randint(2, 9), nconts=rng.randint(0, 3),
                           tags=False, comments=False, header=False)
        else:
            d = G.gen_gfa2(rng, nseg=rng.randint(1, 4), nedges=rng.randint(2, 9), ngaps=rng.randint(0, 3),
                           nfrags=rng.randint(0, 2), tags=False, comments=False, header=False, nog=0, nug=0,
                           ncustom=0)
        lines = d.lines()
        rng.shuffle(lines)
        yield {"k": "graph", "version": version, "lines": lines, "seed": rng.getrandbits(32)}


def run(case, ctx):
    k = case["k"]
    if k == "history":
        from . import history as H

        def judge(g, model, st):
            ctx.count("checks_after_mutation")
            return topo.check_neighbourhoods(ctx, g, model.text_lines(), case["version"])
        shape = H.run_history(case, ctx, compare_every=False, after_step=judge)
        ctx.count("histories")
        if any(x.startswith("rename") or "cascade" in x for x in shape):
            ctx.nontriv(case["steps"])
        return
    if k == "marker-exhaustive-done":
        ctx.notes["exhaustive_stratum"] = "complete"
        ctx.count("exhaustive_strata_completed")
        return
    if k == "cell":
        lines = BASE2 + [eline(tuple(case["cell"]))]
        version = "gfa2"
        ctx.count("table_cells")
        ctx.nontriv_enum()
    elif k == "table-together":
        lines = BASE2 + [eline(c) for c in table_cells()]
        version = "gfa2"
    elif k == "lcg":
        a, b, o1, o2 = case["a"], case["b"], case["o1"], case["o2"]
        if case["rt"] == "L":
            version, lines = "gfa1", ["S\tA\t*", "S\tB\t*", "L\t%s\t%s\t%s\t%s\t3M1D" % (a, o1, b, o2),
                                      "L\t%s\t%s\t%s\t%s\t5M" % (a, o1, b, o2)]
        elif case["rt"] == "C":
            if a == b:
                return
            version, lines = "gfa1", ["S\tA\t*", "S\tB\t*", "C\t%s\t%s\t%s\t%s\t2\t*" % (a, o1, b, o2)]
        elif case["rt"] == "G":
            version, lines = "gfa2", BASE2 + ["G\t*\t%s%s\t%s%s\t5\t*" % (a, o1, b, o2), "G\tg2\t%s%s\t%s%s\t7\t1" % (a, o1, b, o2)]
        else:
            if a != b:
                return
            version, lines = "gfa2", BASE2 + ["E\t*\tA%s\tA%s\t0\t3\t6\t10$\t*" % (o1, o2), "E\t*\tA%s\tA%s\t0\t3\t0\t4\t*" % (o1, o2),
                                              "E\t*\tA%s\tA%s\t7\t10$\t6\t10$\t*" % (o1, o2)]
        ctx.count("lcg_cells")
        ctx.nontriv_enum()
    else:
        lines, version = case["lines"], case["version"]
    r = call(ctx, "Gfa(list)", gfapy.Gfa, lines, version=version, vlevel=level_of(ctx, lines))
    if not r.ok:
        ctx.violation("valid-document-refused/%s" % r.cls(), "%r: %s" % (lines[-3:], str(r.exc)[:200]), prop="C01")
        return
    n = topo.check_neighbourhoods(ctx, r.value, lines, version)
    ctx.count("graphs_checked")
    if k == "graph":
        ctx.nontriv(lines)
        topo.check_topology(ctx, r.value, lines, version)
        if n == 0:
            after_mutations(ctx, r.value, lines, version, case.get("seed", 0))
            edits_through_value_objects(ctx, r.value, version, case.get("seed", 0))
    if k in ("graph", "cell") and case.get("cell", [0])[0] % 97 == 0:
        ctx.sample({"version": version, "lines": lines if len(lines) < 12 else lines[:12]})


def edits_through_value_objects(ctx, g, version, seed):
    """an edge of the Gfa is edited in place through what its public fields return (the oriented
    segment objects, the GFA1-style orientation attributes of E lines).  Either the edit is refused
    (gfapy.Error) or the collections follow: whatever the Gfa then writes is judged like any graph."""
    import random
    from ..mon import obs as O
    rng = random.Random(seed ^ 0x5bd1)
    edges = [l for l in g.lines if l.record_type in ("L", "C", "E", "G") and not l.virtual]
    if not edges:
        return
    for _ in range(2):
        l = rng.choice(edges)
        rt = l.record_type
        ways = ["from_orient", "to_orient"] if rt in ("L", "C", "E") else []
        if rt in ("E", "G"):
            ways += ["sid1.orient", "sid2.orient", "sid1.invert"]
        way = rng.choice(ways)

        def edit():
            if way in ("from_orient", "to_orient"):
                setattr(l, way, "-" if getattr(l, way) == "+" else "+")
            elif way == "sid1.invert":
                l.sid1.invert()
            else:
                ol = getattr(l, way.split(".")[0])
                ol.orient = "-" if ol.orient == "+" else "+"
        before = O.safe_str(l)
        rr = call(ctx, "edit of a connected edge: " + way, edit)
        ctx.count("edits_through_value_objects")
        if not rr.ok:
            ctx.count("edits_through_value_objects_refused")
            if O.safe_str(l) != before:
                ctx.violation("refused-edit-changed-line/%s/%s" % (rt, way), "%r -> %r" % (before, O.safe_str(l)), prop="C08")
            continue
        text = [O.safe_str(x) for x in g.lines if not x.virtual and x.record_type not in ("H", "#")]
        if topo.check_neighbourhoods(ctx, g, text, version, key_suffix="/after-edit-through-%s/%s" % (way, rt)):
            return


def after_mutations(ctx, g, lines, version, seed):
    """the collections must also agree after removals and renames (mirrored on the text model)."""
    import random
    from ..spec import textmodel as T
    from ..mon import obs as O
    rng = random.Random(seed)
    model = T.Model(version, lines)
    for _ in range(rng.randint(1, 4)):
        cand = [x for x in model.recs if x.rt in ("S", "L", "C", "E", "G", "F")]
        if not cand:
            return
        x = rng.choice(cand)
        if x.rt == "S" and rng.random() < 0.4:
            new = "ren%d" % rng.randint(0, 99)
            if new in model.names():
                continue
            rr = call(ctx, "rename", lambda: setattr(g.segment(x.pos[0]), "name", new))
            if not rr.ok:
                ctx.violation("legal-step-refused/rename/S/%s" % rr.cls(), x.text(), prop="C05")
                return
            model.rename(x, new)
            ctx.count("renames")
        elif x.rt == "S":
            rr = call(ctx, "rm", g.rm, x.pos[0])
            if not rr.ok:
                ctx.violation("legal-step-refused/rm/S/%s" % rr.cls(), x.text(), prop="C05")
                return
            model.remove(x)
            ctx.count("removals")
        else:
            want = topo.rkey(x, version)
            target = None
            for l in g.lines:
                if l.record_type == x.rt and topo.ckey(l, version) == want:
                    target = l
                    break
            if target is None:
                return
            rr = call(ctx, "disconnect", target.disconnect)
            if not rr.ok:
                ctx.violation("legal-step-refused/rm/%s/%s" % (x.rt, rr.cls()), x.text(), prop="C05")
                return
            model.remove(x)
            ctx.count("removals")
        if topo.check_neighbourhoods(ctx, g, model.text_lines(), version):
            return
        ctx.count("checks_after_mutation")
