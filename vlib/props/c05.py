"""C05 — mutating a Gfa is equivalent to editing its text (exact removal cascade)."""
from . import history as H
from ..mon import hooks

ID = "C05"


def setup(ctx):
    hooks.RATE = 1


def cases(rng, tier, shard, nshards):
    while True:
        yield H.gen_history(rng, nsteps=rng.randint(3, 14 if tier == "quick" else 40), failing=0.0,
                            fanout=True, tags=rng.random() < 0.5, canonical=True)


def run(case, ctx):
    shape = H.run_history(case, ctx, compare_every=True)
    if any("cascade" in s for s in shape) or any(s.startswith("rename") for s in shape):
        ctx.nontriv(case["steps"])
    for s in shape:
        ctx.add("step_shapes", s)
    ctx.sample(case)
