"""C04 — validation accepts exactly the documents the GFA grammar allows."""
import gfapy
from ..gen import docs as G
from ..gen import hostile as HG
from ..spec import grammar as S
from ..spec import document as D
from ..mon.client import call
from ..mon import hooks

import os
import random
import zlib
import shutil
import tempfile

ID = "C04"
MAXLEN = {"quick": 3, "thorough": 4}
ENTRIES = ["list", "list", "str", "file"]
EXOTIC = ["\x0b", "\x0c", "\x1c", "\x1d", "\x1e", "\x85", "\u2028", "\u2029"]
_tmp = None


def setup(ctx):
    global _tmp
    hooks.RATE = 50
    _tmp = tempfile.mkdtemp(prefix="verif-c04-")


def finish(ctx):
    if _tmp:
        shutil.rmtree(_tmp, ignore_errors=True)


def cases(rng, tier, shard, nshards):
    kinds = sorted(HG.ALPHABETS)
    # stratum 1: exhaustive short strings, dealt round-robin over the shards
    i = 0
    for kind in kinds:
        batch = []
        for s in HG.short_strings(kind, MAXLEN[tier]):
            if i % nshards == shard:
                batch.append(s)
                if len(batch) == 200:
                    yield {"k": "strings", "kind": kind, "strings": batch}
                    batch = []
            i += 1
        if batch:
            yield {"k": "strings", "kind": kind, "strings": batch}
    yield {"k": "marker-exhaustive-done"}
    # stratum 2: generated lines/documents and their single-point mutants, sampled longer strings
    while True:
        r = rng.random()
        if r < 0.25:
            d = G.gen_doc(rng, canonical=rng.random() < 0.5)
            yield {"k": "doc", "lines": d.lines(), "version": rng.choice([None, d.version]),
                   "vlevel": rng.choice([1, 2, 3]), "dialect": "standard", "entry": rng.choice(ENTRIES)}
        elif r < 0.5:
            d = G.gen_doc(rng, canonical=rng.random() < 0.5)
            lines = d.lines()
            i = rng.randrange(len(lines))
            entry = rng.choice(ENTRIES)
            if rng.random() < 0.2:
                # characters which some line splitters take for line ends (VT, FF, FS, GS, RS, NEL,
                # LS, PS): in GFA only LF / CRLF end a line -- inside a field they are invalid
                # characters, between two records they do not separate them
                ch = rng.choice(EXOTIC)
                if rng.random() < 0.5 and len(lines) > 1:
                    i = rng.randrange(len(lines) - 1)
                    lines[i:i + 2] = [lines[i] + ch + lines[i + 1]]
                else:
                    f = lines[i].split("\t")
                    k = rng.randrange(1 if len(f) > 1 else 0, len(f))
                    pos = rng.choice([0, len(f[k]), len(f[k]) // 2])
                    f[k] = f[k][:pos] + ch + f[k][pos:]
                    lines[i] = "\t".join(f)
                entry = rng.choice(["file", "file", "str"])
            else:
                lines[i] = HG.mutate_line(rng, lines[i])
            yield {"k": "doc", "lines": lines, "version": rng.choice([None, d.version]),
                   "vlevel": rng.choice([1, 2, 3]), "dialect": "standard", "entry": entry}
        elif r < 0.62:
            yield {"k": "doc", "lines": cross_field_doc(rng), "version": None, "vlevel": rng.choice([1, 2, 3]),
                   "dialect": "standard"}
        elif r < 0.7:
            yield rgfa_doc(rng)
        elif r < 0.85:
            d = G.gen_doc(rng, canonical=rng.random() < 0.5)
            l = rng.choice(d.lines())
            if rng.random() < 0.6:
                l = HG.mutate_line(rng, l)
            yield {"k": "line", "line": l, "version": d.version, "vlevel": rng.choice([1, 2, 3])}
        else:
            kind = rng.choice(kinds)
            al = HG.ALPHABETS[kind]
            n = MAXLEN[tier] + rng.randint(1, 3)
            yield {"k": "strings", "kind": kind, "sampled": True,
                   "strings": ["".join(rng.choice(al) for _ in range(n)) for _ in range(50)]}


def path_link_overlap_doc(rng):
    """GFA1 paths whose overlaps agree or not with the overlaps of the links."""
    ovs = ["*", "5M", "6M"]
    out = ["S\ta\t*", "S\tb\t*", "S\tc\t*"]
    mid = "a" if rng.random() < 0.25 else "b"       # (a+ -> a+: a self-link is listed on both of its ends)
    steps = [("a", "+", mid, "+"), (mid, "+", "c", rng.choice("+-"))]
    force = rng.random() < 0.3       # a '*' link under two paths which state different overlaps
    for f, fo, t, to in steps:
        if rng.random() < 0.85 or force:
            ov = rng.choice(ovs) if not (force and (f, t) == ("a", mid)) else "*"
            if rng.random() < 0.3 and (ov != "*" or force):
                out.append("L\t%s\t%s\t%s\t%s\t%s" % (t, S.inv(to), f, S.inv(fo), ov))
            else:
                out.append("L\t%s\t%s\t%s\t%s\t%s" % (f, fo, t, to, ov))
    for pn in ["p", "q", "r"][:rng.choice([2, 3]) if force else rng.randint(1, 2)]:
        n = rng.choice([2, 2, 3])
        names = ["a+", mid + "+", "c" + steps[1][3]][:n]
        if rng.random() < 0.3 and not force:
            pov = "*"
        else:
            pov = ",".join(rng.choice(ovs) for _ in range(n - 1))
            if force:
                pov = ",".join([{"p": "5M", "q": "6M", "r": "7M"}[pn]] + pov.split(",")[1:])
        if force and rng.random() < 0.3:
            # (the same walk written from the other end)
            names = [x[:-1] + S.inv(x[-1]) for x in reversed(names)]
            pov = ",".join(S.cigar_complement(x) for x in reversed(pov.split(",")))
        out.append("P\t%s\t%s\t%s" % (pn, ",".join(names), pov))
    rng.shuffle(out)
    return out


def cross_field_doc(rng):
    """documents built to sit on one cross-field rule (valid and invalid by that rule)."""
    k = rng.randrange(10)
    if k == 9:
        return path_link_overlap_doc(rng)
    if k == 8:      # a group defined on several lines, its tags agreeing or not (the verdict on a
        # disagreement is not the grammar's, but it cannot depend on the order of the lines)
        rt = rng.choice("UO")
        pairs = [("xx:i:0", "xx:i:5"), ("xx:f:0.0", "xx:f:1.5"), ("xx:J:[]", "xx:J:[1]"), ("xx:J:{}", "xx:J:{\"a\":1}"),
                 ("xx:i:3", "xx:i:4"), ("xx:Z:a", "xx:Z:b"), ("xx:i:0", "xx:f:0.0"), ("xx:i:0", "xx:Z:0"),
                 ("xx:i:2", "xx:i:2"), ("xx:i:0", "xx:i:0"), ("xx:i:0", "yy:i:1"), ("xx:i:0", "")]
        a, b = rng.choice(pairs)
        if rng.random() < 0.5:
            a, b = b, a
        o = "+" if rt == "O" else ""
        out = ["S\tA\t10\t*", "S\tB\t10\t*", "S\tC\t10\t*",
               "E\t*\tA+\tB+\t5\t10$\t0\t5\t*", "E\t*\tB+\tC+\t5\t10$\t0\t5\t*",
               "\t".join(x for x in [rt, "g", "A" + o + " B" + o, a] if x),
               "\t".join(x for x in [rt, "g", ("B" + o + " C" + o) if rt == "O" else "C", b] if x)]
        if rng.random() < 0.5:
            rng.shuffle(out)
        return out
    if k == 0:      # LN vs sequence
        n = rng.randint(1, 9)
        ln = rng.choice([n, n, n + 1, n - 1, 0])
        return ["S\tA\t%s\tLN:i:%d" % (G.rseq(rng, n), ln)]
    if k == 1:      # path overlap count
        segs = ["A", "B", "C", "D"][:rng.randint(1, 4)]
        n = len(segs)
        novs = rng.choice([n - 1, n, n + 1, max(n - 2, 0), 1])
        ovs = ",".join(["*"] * novs) if novs > 0 else "*"
        out = ["S\t%s\t*" % s for s in segs]
        for i in range(n):
            out.append("L\t%s\t+\t%s\t+\t*" % (segs[i], segs[(i + 1) % n]))
        out = list(dict.fromkeys(out))
        out.append("P\tp\t%s\t%s" % (",".join(s + "+" for s in segs), ovs))
        return out
    if k == 2:      # beg <= end, '$' on begin only together with end (and then on the same position)
        b, e = rng.randint(0, 10), rng.randint(0, 10)
        bs = "%d%s" % (b, rng.choice(["", "", "$"]))
        es = "%d%s" % (e, rng.choice(["", "", "$"]))
        rt = rng.choice(["E1", "E2", "Fs", "Ff"])
        if rt == "E1":
            l = "E\t*\tA+\tB-\t%s\t%s\t0\t10$\t*" % (bs, es)
        elif rt == "E2":
            l = "E\t*\tA+\tB-\t0\t10$\t%s\t%s\t*" % (bs, es)
        elif rt == "Fs":
            l = "F\tA\tread+\t%s\t%s\t0\t5\t*" % (bs, es)
        else:
            l = "F\tA\tread+\t0\t10$\t%s\t%s\t*" % (bs, es)
        return ["S\tA\t10\t*", "S\tB\t10\t*", l]
    if k == 3:      # $ only on the last position
        slen = rng.randint(2, 9)
        p = rng.choice([slen, slen - 1, slen + 1, 0])
        seq = rng.choice(["*", G.rseq(rng, slen)])
        rt = rng.choice(["E", "E", "F"])
        if rt == "E":
            # the '$' in question on either side of the edge, the other segment with or without sequence
            olen = rng.randint(2, 12)
            oseq = rng.choice(["*", G.rseq(rng, olen)])
            a = "S\tA\t%d\t%s" % (slen, seq)
            b = "S\tB\t%d\t%s" % (olen, oseq)
            if rng.random() < 0.5:
                e = "E\t*\tA+\tB-\t0\t%d$\t0\t%d$\t*" % (p, olen)
            else:
                e = "E\t*\tB%s\tA%s\t0\t%d$\t0\t%d$\t*" % (rng.choice("+-"), rng.choice("+-"), olen, p)
            out = [a, b, e]
            rng.shuffle(out)
            return out
        return ["S\tA\t%d\t%s" % (slen, seq), "F\tA\tr+\t0\t%d$\t0\t5\t*" % p]
    if k == 4:      # undefined references
        v = rng.choice(["gfa1", "gfa2"])
        if v == "gfa1":
            return ["S\tA\t*", rng.choice(["L\tA\t+\tB\t+\t*", "C\tA\t+\tB\t+\t0\t*", "P\tp\tB+\t*",
                                           "L\tA\t+\tA\t+\t*", "P\tp\tA+\t*"])]
        return ["S\tA\t10\t*", rng.choice(["E\t*\tA+\tB-\t0\t1\t0\t1\t*", "G\t*\tA+\tB-\t1\t*",
                                            "F\tB\tr+\t0\t1\t0\t1\t*", "O\t*\tB+", "U\t*\tB", "U\t*\tA",
                                            "O\to\tA+", "E\t*\tA+\tA-\t0\t1\t0\t1\t*"])]
    if k == 5:      # duplicate identifiers across record types
        v = rng.choice(["gfa1", "gfa2"])
        if v == "gfa1":
            a = rng.choice(["S\tA\t*", "P\tA\tB+\t*", "L\tB\t+\tB\t-\t*\tID:Z:A", "C\tB\t+\tX\t-\t0\t*\tID:Z:A"])
            b = rng.choice(["S\tA\t*\txx:i:1", "P\tA\tX+\t*", "L\tX\t+\tB\t-\t*\tID:Z:A", "C\tX\t+\tB\t-\t0\t*\tID:Z:A"])
            return ["S\tB\t*", "S\tX\t*", a, b]
        a = rng.choice(["S\tA\t5\t*", "E\tA\tB+\tB-\t0\t1\t0\t1\t*", "G\tA\tB+\tX-\t1\t*", "O\tA\tB+", "U\tA\tB"])
        b = rng.choice(["S\tA\t6\t*", "E\tA\tX+\tB-\t0\t1\t0\t1\t*", "G\tA\tX+\tX-\t1\t*", "O\tA\tX+", "U\tA\tX"])
        return ["S\tB\t10\t*", "S\tX\t10\t*", a, b]
    if k == 6:      # predefined tags with prescribed types, duplicated tags
        t = rng.choice(["LN:i:3", "LN:Z:3", "RC:f:1.0", "RC:i:1", "SH:H:1A", "SH:Z:1A", "UR:Z:x", "UR:i:1",
                        "xx:i:1\txx:i:2", "xx:i:1\txx:Z:a", "KC:i:1\tKC:i:1", "x:i:1", "9x:i:1", "xxx:i:1",
                        "Xx:i:1", "x1:i:1"])
        return ["S\tA\t*\t" + t]
    # version mixing
    a = rng.choice(["S\tA\t*", "L\tA\t+\tA\t-\t*", "H\tVN:Z:1.0", "P\tp\tA+\t*"])
    b = rng.choice(["S\tB\t10\t*", "E\t*\tA+\tA-\t0\t1\t0\t1\t*", "H\tVN:Z:2.0", "G\t*\tA+\tA-\t1\t*", "X\tcustom"])
    x = [a, b, rng.choice(["S\tA\t*", "S\tA\t10\t*"])]
    rng.shuffle(x)
    return list(dict.fromkeys(x))


def rgfa_doc(rng):
    tags = ["SN:Z:chr1", "SO:i:0", "SR:i:0"]
    k = rng.random()
    if k < 0.3:
        tags.pop(rng.randrange(3))
    elif k < 0.45:
        tags[rng.randrange(3)] = rng.choice(["SN:i:1", "SO:Z:x", "SR:Z:x"])
    lines = ["S\tA\t*\t" + "\t".join(tags), "S\tB\t*\tSN:Z:chr1\tSO:i:10\tSR:i:0"]
    lines.append("L\tA\t+\tB\t+\t%s%s" % (rng.choice(["0M", "0M", "1M", "*"]),
                                         rng.choice(["", "\tSR:i:0\tL1:i:5\tL2:i:5", "\tL1:Z:x"])))
    if rng.random() < 0.3:
        lines.append(rng.choice(["H\tVN:Z:1.0", "C\tA\t+\tB\t+\t0\t0M", "P\tp\tA+,B+\t0M"]))
    return {"k": "doc", "lines": lines, "version": rng.choice([None, "gfa1"]), "vlevel": rng.choice([1, 2, 3]),
            "dialect": "rgfa"}


# ----------------------------------------------------------------------------------
def accept_line(ctx, line, version, vlevel):
    """(constructed?, validate ok?, outcomes) for gfapy.Line."""
    kw = {"vlevel": vlevel}
    rt = line.split("\t")[0]
    if version and not (rt in ("H", "S") or rt.startswith("#")):
        kw["version"] = version
    r = call(ctx, "Line(str)", gfapy.Line, line, **kw)
    if not r.ok:
        return False, None, r, None
    v = call(ctx, "line.validate()", r.value.validate)
    return True, v.ok, r, v


def judge(ctx, verdict, constructed, validated, what, keybase, r, v):
    """the C04 oracle.  accepted := constructed and explicit validate() passes; an invalid
    input may be refused at construction or by the explicit validation (both are refusals);
    UNSPECIFIED inputs are not judged.  keybase identifies the mechanism (datatype / rule)."""
    kind, reason = verdict
    accepted = bool(constructed and validated)
    if kind == S.VALID and not accepted:
        bad = r if not constructed else v
        ctx.violation("valid-rejected/%s/%s/%s" % (keybase, "construction" if not constructed else "validate", bad.cls()),
                      "%s is valid per the grammar but was refused with %s: %s" % (what, bad.cls(), str(bad.exc)[:200]))
    elif kind == S.INVALID and accepted:
        ctx.violation("invalid-accepted/%s/%s" % (keybase, reason),
                      "%s is invalid per the grammar (%s) but was accepted and passes validate()" % (what, reason))


def order_twin(ctx, case, lines, kw, accepted, out, verdict):
    """the grammar knows no line order: the same lines in another order are the same document, so
    the two verdicts must agree (whatever the verdict is -- this also decides documents on which the
    recogniser is silent).  Lines are offered as a list so that no line-end handling interferes."""
    if len(lines) < 2 or len(lines) > 40:
        return
    rng = random.Random(zlib.crc32(repr(lines).encode("utf8", "replace")))
    if rng.random() > 0.35:
        return
    other = list(lines)
    if rng.random() < 0.4:
        other.reverse()
    else:
        rng.shuffle(other)
    if other == lines:
        return
    if case.get("entry", "list") != "list":
        # the first verdict came through another entry point: take it again from a list
        c0, v0, r0, vv0, _ = accept_doc(ctx, lines, kw, "list")
        accepted, out = bool(c0 and v0), (r0 if not c0 else vv0)
    c2, v2, r2, vv2, _ = accept_doc(ctx, other, kw, "list")
    ctx.count("order_twins_judged")
    acc2 = bool(c2 and v2)
    if acc2 == accepted:
        return
    ctx.count("order_twins_disagreeing")
    bad = out if not accepted else (r2 if not c2 else vv2)
    ctx.violation("verdict-depends-on-line-order/%s/%s" % (verdict[0], bad.cls()),
                  "the lines %r are %s, the same lines in the order %r are %s (%s: %s); kw=%r"
                  % (lines, "accepted" if accepted else "refused", other, "accepted" if acc2 else "refused",
                     bad.cls(), str(bad.exc)[:160], kw))


def entry_twin(ctx, case, lines, kw, accepted, out, verdict, entry):
    """the same text through another entry point (string, list of lines, file): the same verdict."""
    if any("\n" in l or "\r" in l for l in lines) or not lines:
        return
    rng = random.Random(zlib.crc32(repr(lines).encode("utf8", "replace")) ^ 0x5A5A)
    if rng.random() > 0.2:
        return
    other = rng.choice([e for e in ("list", "str", "file") if e != entry])
    c2, v2, r2, vv2, used = accept_doc(ctx, lines, kw, other)
    if used == entry:
        return
    ctx.count("entry_twins_judged")
    acc2 = bool(c2 and v2)
    if acc2 == accepted:
        return
    bad = out if not accepted else (r2 if not c2 else vv2)
    ctx.violation("verdict-depends-on-entry-point/%s-vs-%s/%s" % (entry, used, bad.cls()),
                  "the lines %r are %s through %s and %s through %s (%s: %s); kw=%r"
                  % (lines, "accepted" if accepted else "refused", entry, "accepted" if acc2 else "refused", used,
                     bad.cls(), str(bad.exc)[:160], kw))


def accept_doc(ctx, lines, kw, entry):
    """(constructed?, explicit validation ok?, outcomes, entry point used) for a document."""
    if entry == "str":
        r = call(ctx, "Gfa(str)", gfapy.Gfa, "\n".join(lines), **kw)
    elif entry == "file":
        fn = os.path.join(_tmp, "doc.gfa")
        try:
            with open(fn, "w", encoding="utf8", newline="") as f:
                f.write("\n".join(lines) + "\n")
            r = call(ctx, "Gfa.from_file", gfapy.Gfa.from_file, fn, **kw)
        except UnicodeEncodeError:
            r = call(ctx, "Gfa(list)", gfapy.Gfa, list(lines), **kw)
            entry = "list"
    else:
        r = call(ctx, "Gfa(list)", gfapy.Gfa, list(lines), **kw)
    constructed = r.ok
    validated = None
    v = None
    if constructed:
        g = r.value
        v = call(ctx, "gfa.validate()", g.validate)
        validated = v.ok
        if validated:
            for l in g.lines:
                if l.virtual:
                    continue
                lv = call(ctx, "line.validate()", l.validate)
                if not lv.ok:
                    validated, v = False, lv
                    break
    return constructed, validated, r, v, entry


def run(case, ctx):
    k = case["k"]
    if k == "marker-exhaustive-done":
        ctx.notes["exhaustive_stratum"] = "complete"
        ctx.count("exhaustive_strata_completed")
        return
    if k == "strings":
        kind = case["kind"]
        version, tmpl = HG.CARRIERS[kind]
        for s in case["strings"]:
            line = tmpl.format(s)
            verdict = S.recognise_line(line, version)
            for vlevel in (1, 3):
                constructed, validated, r, v = accept_line(ctx, line, version, vlevel)
                ctx.count("strings_judged")
                ctx.count("verdict:" + verdict[0])
                ctx.add("dt_verdicts", kind + ":" + verdict[0] + ":" + ("acc" if (constructed and validated) else "rej"))
                judge(ctx, verdict, constructed, validated, "%r as %s (vlevel %d)" % (s, kind, vlevel),
                      kind, r, v)
        if case.get("sampled"):
            ctx.nontriv([kind, case["strings"]])
        else:
            ctx.nontriv_enum(len(case["strings"]))
        if kind == "i":
            ctx.sample({"k": "strings", "kind": kind, "strings": case["strings"][:12]})
        return
    if k == "line":
        line, version, vlevel = case["line"], case["version"], case["vlevel"]
        rt0 = line.split("\t")[0]
        if rt0 in ("H", "S") or rt0.startswith("#"):
            version = None          # offered without a version, exactly as accept_line does
        verdict = S.recognise_line(line, version)
        constructed, validated, r, v = accept_line(ctx, line, version, vlevel)
        ctx.count("lines_judged")
        ctx.count("verdict:" + verdict[0])
        rt = line.split("\t")[0][:2] or "empty"
        judge(ctx, verdict, constructed, validated, "line %r" % line, "line/" + rt, r, v)
        if verdict[0] != S.UNSPEC:
            ctx.nontriv(case)
        ctx.sample(case)
        return
    # document
    lines, version, vlevel, dialect = case["lines"], case["version"], case["vlevel"], case["dialect"]
    verdict = D.recognise_doc(lines, version, dialect)
    kw = {"vlevel": vlevel, "dialect": dialect}
    if version:
        kw["version"] = version
    entry = case.get("entry", "list")
    if entry in ("str", "file") and any("\n" in l or "\r" in l for l in lines):
        entry = "list"          # (the text would denote other lines)
    constructed, validated, r, v, entry = accept_doc(ctx, lines, kw, entry)
    ctx.count("docs_judged")
    ctx.count("docs_entry:" + entry)
    ctx.count("verdict:" + verdict[0])
    reason = (verdict[1] or "").split(":")[0]
    judge(ctx, verdict, constructed, validated, "document %r (version=%s, dialect=%s, vlevel=%d)"
          % (lines, version, dialect, vlevel), "doc" if entry == "list" else "doc-" + entry, r, v)
    if verdict[0] != S.UNSPEC:
        ctx.nontriv(case)
    order_twin(ctx, case, lines, kw, bool(constructed and validated), r if not constructed else v, verdict)
    entry_twin(ctx, case, lines, kw, bool(constructed and validated), r if not constructed else v, verdict, entry)
    ctx.add("doc_reasons", "%s:%s" % (verdict[0], reason))
    ctx.sample(case)
