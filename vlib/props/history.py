"""G3 mutation histories + the shared engine behind C02, C05, C08, C09 (and C16 'after
histories').  A history is a JSON-able list of steps over a start document; the text
model (spec/textmodel) decides legality and denotes the expected text."""
import gfapy
from ..gen import docs as G
from ..gen import values as V
from ..spec import grammar as S
from ..spec import textmodel as T
from ..mon import obs as O
from ..mon import hooks
from ..mon.client import call
from ..ctx import HarnessError

PROBE_RATE = 0.0     # share of the failing steps which are probes (set by the C08 check)
RECONNECT_RATE = 0.08  # share of the steps which disconnect an edge, edit it and add it again

FRESH = ["new1", "Zq", "77", "1000", "x_y", "k9", "fresh.1", "31", "w", "M2"]


# ---------------------------------------------------------------- generation
def gen_history(rng, version=None, nsteps=None, failing=0.0, canonical=True, fanout=True, tags=False):
    version = version or rng.choice(["gfa1", "gfa2"])
    if version == "gfa1":
        d = G.gen_gfa1(rng, canonical=canonical, tags=tags, nseg=rng.randint(2, 5),
                       nlinks=rng.randint(2, 8) if fanout else None, comments=False,
                       header=rng.random() < 0.3, allow_parallel=False)
    else:
        d = G.gen_gfa2(rng, canonical=canonical, tags=tags, nseg=rng.randint(2, 5),
                       nedges=rng.randint(2, 7) if fanout else None, comments=False,
                       header=rng.random() < 0.3, ngaps=rng.choice([0, 1, 2]),
                       nog=rng.choice([0, 1, 2, 3]), nug=rng.choice([0, 1, 2, 3]),
                       gaps_in_sets=rng.random() < 0.3, gaps_in_paths=rng.random() < 0.25)
    lines = d.lines()
    order = list(range(len(lines)))
    if rng.random() < 0.6:
        rng.shuffle(order)          # forward references
    start = [lines[i] for i in order]
    # a second document over the same names supplies lines to add later
    m = T.Model(version)
    steps = []
    for l in start:
        steps.append({"op": "add", "line": l, "as": rng.choice(["str", "str", "line"])})
    n = nsteps if nsteps is not None else rng.randint(3, 14)
    # simulate on the model to produce applicable steps
    sim = T.Model(version)
    removed_pool = []
    for st in steps:
        _apply_model(sim, st, removed_pool)
    for _ in range(n):
        st = _gen_step(rng, sim, removed_pool, failing, tags)
        if st is None:
            continue
        steps.append(st)
        _apply_model(sim, st, removed_pool)
    return {"version": version, "steps": steps, "vlevel": rng.choice([1, 1, 2, 3])}


def _named(sim):
    return [(T.ident(r), r) for r in sim.recs if T.ident(r) is not None and r.rt != "H"]


def _gen_step(rng, sim, removed_pool, failing, tags):
    k = rng.random()
    named = _named(sim)
    if rng.random() < failing:
        return _gen_failing_step(rng, sim, named)
    if RECONNECT_RATE and rng.random() < RECONNECT_RATE:
        st = _gen_reconnect_step(rng, sim)
        if st is not None:
            return st
    if sim.version == "gfa2" and rng.random() < 0.12:
        # a further line of an existing group (documented merge): its items are appended
        groups = [(n, r) for n, r in named if r.rt in ("O", "U")]
        pool = [(n, r) for n, r in named if r.rt in ("S", "E")]
        if groups and pool:
            listed = {m for x in sim.recs if x.rt in ("O", "U") for m, role in T.mentions(x)}
            inner = [(n, r) for n, r in groups if n in listed]
            n, r = rng.choice(inner if (inner and rng.random() < 0.7) else groups)
            items = [rng.choice(pool)[0] for _ in range(rng.randint(1, 2))]
            if n not in items:
                txt = " ".join(i + (rng.choice("+-") if r.rt == "O" else "") for i in items)
                tg = ""
                if tags and rng.random() < 0.4:
                    tn = V.tagname(rng, used=[t[0] for t in r.tags])
                    tg = "\t%s:i:%d" % (tn, rng.randint(0, 9))
                return {"op": "add", "line": "%s\t%s\t%s%s" % (r.rt, n, txt, tg), "as": rng.choice(["str", "line"])}
    if k < 0.40 and sim.recs:
        # removal
        cand = [r for r in sim.recs if r.rt not in ("H",)]
        if not cand:
            return None
        r = rng.choice(cand)
        n = T.ident(r)
        how = rng.choice(["name", "line", "disconnect"]) if n is not None else rng.choice(["line", "disconnect"])
        return {"op": "rm", "how": how, "name": n, "text": r.text(), "rt": r.rt}
    if k < 0.60 and removed_pool:
        l = removed_pool[rng.randrange(len(removed_pool))]
        return {"op": "add", "line": l, "as": rng.choice(["str", "line"])}
    if k < 0.80 and named:
        n, r = rng.choice(named)
        if rng.random() < 0.3:
            # a record which other records mention (its identifier is written in several places)
            listed = {m for x in sim.recs for m, role in T.mentions(x)}
            cand = [(a, b) for a, b in named if a in listed and b.rt != "S"]
            if cand:
                n, r = rng.choice(cand)
        fresh = [f for f in FRESH if f not in sim.names()]
        if rng.random() < 0.3 and r.rt not in ("L", "C"):
            # onto an identifier which is mentioned but not defined (the renamed line takes the
            # place of the placeholder)
            fresh = sorted({m for x in sim.recs for m, role in T.mentions(x)
                            if m and m not in sim.names() and S.fm("id2", m)}) or fresh
        if not fresh:
            return None
        new = rng.choice(fresh)
        if sim.version == "gfa2" and r.rt in ("E", "G", "O", "U") and rng.random() < 0.15:
            new = "*"
        if sim.version == "gfa1" and r.rt in ("S", "P") and not S.fm("name1", new):
            return None
        return {"op": "rename", "name": n, "new": new, "rt": r.rt, "text": r.text()}
    if sim.recs:
        r = rng.choice([x for x in sim.recs if x.rt not in ("#",)] or sim.recs)
        if r.rt == "#":
            return None
        n = T.ident(r)
        if r.rt == "H":
            return None
        if r.rt == "F" and sim.version == "gfa2" and rng.random() < 0.4:
            # the external sequence of a fragment may be edited while the line is connected
            # (fragments are stored under it)
            return {"op": "setext", "name": None, "text": r.text(), "rt": "F",
                    "value": rng.choice(["read9", "ext.7", "r2", "read1"]) + rng.choice("+-")}
        if r.tags and rng.random() < 0.4:
            t = rng.choice(r.tags)
            if t[0] in ("LN", "VN") or (t[0] == "ID" and r.rt not in ("L", "C")):
                return None
            return {"op": "deltag", "name": n, "text": r.text(), "tag": t[0], "rt": r.rt}
        if r.rt in ("L", "C") and sim.version == "gfa1" and n is None and rng.random() < 0.5:
            # a link/containment gets an identifier (fresh, or one which is in use)
            fresh = [f for f in FRESH if f not in sim.names()]
            used = list(sim.names())
            if used and rng.random() < 0.35:
                return {"op": "settag", "name": None, "text": r.text(), "tag": "ID", "dt": "Z",
                        "value": rng.choice(used), "rt": r.rt}
            if fresh:
                return {"op": "settag", "name": None, "text": r.text(), "tag": "ID", "dt": "Z",
                        "value": rng.choice(fresh), "rt": r.rt}
        dt = rng.choice("ifZ")
        tn = V.tagname(rng, used=[t[0] for t in r.tags])
        return {"op": "settag", "name": n, "text": r.text(), "tag": tn, "dt": dt,
                "value": V.tag_value_text(rng, dt, True), "rt": r.rt}
    return None


RECONNECT_FIELDS = {"L": ["from_segment", "from_orient", "to_segment", "to_orient", "overlap"],
                    "C": ["from_segment", "from_orient", "to_segment", "to_orient", "pos", "overlap"],
                    "E": ["eid", "sid1", "sid2", "beg1", "end1", "beg2", "end2", "alignment"],
                    "G": ["gid", "sid1", "sid2", "disp", "var"]}


def _flip(x):
    return x[:-1] + ("-" if x[-1] == "+" else "+")


def _gen_reconnect_step(rng, sim):
    """the documented way to edit the read-only fields of a connected edge: disconnect the line,
    edit it, add the same line object again (tutorial, 'Editing read-only fields of connected
    lines').  The text model removes the record (with its dependants) and adds the edited one."""
    cand = [r for r in sim.recs if r.rt in (("L", "C") if sim.version == "gfa1" else ("E", "G"))]
    if not cand:
        return None
    r = rng.choice(cand)
    p = list(r.pos)
    how = rng.choice(["swap", "flip1", "flip2", "flipboth", "redraw"])
    if r.rt in ("L", "C"):
        if how == "swap" and r.rt == "L":
            p[0], p[1], p[2], p[3] = p[2], p[3], p[0], p[1]
        elif how in ("flip1", "redraw"):
            p[1] = "-" if p[1] == "+" else "+"
        elif how == "flip2":
            p[3] = "-" if p[3] == "+" else "+"
        else:
            p[1] = "-" if p[1] == "+" else "+"
            p[3] = "-" if p[3] == "+" else "+"
    elif r.rt == "E":
        if how == "swap":
            p[1], p[2] = p[2], p[1]
            p[3], p[4], p[5], p[6] = p[5], p[6], p[3], p[4]
            if not (p[7] == "*" or "," in p[7] or p[7].isdigit()):
                p[7] = "*"
        elif how == "flip1":
            p[1] = _flip(p[1])
        elif how == "flip2":
            p[2] = _flip(p[2])
        elif how == "flipboth":
            p[1], p[2] = _flip(p[1]), _flip(p[2])
        else:
            side = rng.choice([1, 2])
            seg = sim.by_name(p[side][:-1])
            if seg is None or seg.rt != "S" or not seg.pos[1].isdigit() or int(seg.pos[1]) < 1:
                return None
            b, e, _k = G.interval(rng, int(seg.pos[1]))
            p[1 + 2 * side], p[2 + 2 * side] = b, e
            if not (p[7] == "*" or "," in p[7] or p[7].isdigit()):
                p[7] = "*"
    else:
        if how == "swap":
            p[1], p[2] = p[2], p[1]
        elif how in ("flip1", "redraw"):
            p[1] = _flip(p[1])
        elif how == "flip2":
            p[2] = _flip(p[2])
        else:
            p[1], p[2] = _flip(p[1]), _flip(p[2])
    if p == r.pos:
        return None
    new = "\t".join([r.rt] + p + ["%s:%s:%s" % t for t in r.tags])
    return {"op": "reconnect", "name": T.ident(r), "text": r.text(), "rt": r.rt, "newtext": new}


def _reconnect_verdict(model, r, st, commit=False):
    """the model after 'remove r, add the edited record'; (verdict, number of dependants removed)"""
    import copy
    m = model if commit else copy.deepcopy(model)
    rr = r if commit else m.recs[model.recs.index(r)]
    gone = m.remove(rr)
    rec = S.parse_line(st["newtext"], m.version)
    v = m.add_verdict(rec)
    if v == "ok" and rec.rt == "L":
        # a second link between the same segment ends: which of the two a path with '*' overlaps
        # runs over is not specified (the generators of the start documents avoid parallel links too)
        c = S.link_complement_pos(rec.pos[:5])[:4]
        if any(x.rt == "L" and (x.pos[:4] == rec.pos[:4] or x.pos[:4] == c) for x in m.recs):
            v = "unspec"
    if v != "ok":
        return ("skip" if v in ("merge", "dup") else "unspec"), 0
    if commit:
        m.add(rec)
    return "ok", len(gone) - 1


POS_POKES = {"L": [("overlap", "1Q"), ("from_orient", "x"), ("to_orient", "")],
             "C": [("pos", "-1"), ("overlap", "1Q"), ("from_orient", "?")],
             "P": [("overlaps", "1M,,"), ("segment_names", "a+,+")],
             "E": [("beg1", "x"), ("alignment", "1Q"), ("end2", "5$$")],
             "G": [("disp", "x"), ("var", "-")],
             "F": [("external", "r+ r+"), ("s_beg", "x"), ("f_end", "$")],
             "O": [("items", "a+ b")],
             "U": [("items", "a  b")]}


def _gen_probe_step(rng, sim, named):
    """a line which mentions identifiers in roles their carriers cannot play (a path through
    another path's name, an edge between a group and a segment, ...), possibly among valid and
    not-yet-defined ones, and possibly itself taking the place of a placeholder.  The text model
    does not say whether such a call must fail (UNSPECIFIED): it is executed as a probe, and
    WHEN it raises the Gfa must be unchanged (C08)."""
    v = sim.version
    segs = [x.pos[0] for x in sim.recs if x.rt == "S"]
    nonsegs = [n for n, r in named if r.rt != "S"]
    undefined = sorted({m for x in sim.recs for m, role in T.mentions(x)
                        if m and m not in sim.names() and S.fm("id2", m)})
    fresh = [f for f in FRESH if f not in sim.names()]
    pool = segs * 2 + fresh[:2] + undefined
    if not nonsegs or not pool:
        return None
    groups = [(n, x) for n, x in named if x.rt in ("O", "U")]
    if named and rng.random() < 0.1:
        # a new tag of a line of the Gfa is assigned, without a declared datatype, a value which the
        # default datatype of its class cannot hold (refused at level 3 only)
        n, x = rng.choice(named)
        tn = rng.choice(["qx", "qy", "q1"])
        if not any(t[0] == tn for t in x.tags):
            return {"op": "settag-default", "name": n, "text": x.text(), "rt": x.rt, "tag": tn,
                    "value": rng.choice(["a\tb", "x\ny", "@inf", "@nan", [2 ** 32, 1], [1, -2 ** 31 - 1]]),
                    "line": x.rt + "\t(tag of a connected line)", "expect": "probe", "poke": ["-", "-"]}
    if v == "gfa2" and groups and segs and rng.random() < 0.12:
        # a further line of a group which lists the group itself (a single line doing so is refused)
        n, x = rng.choice(groups)
        o = "+" if x.rt == "O" else ""
        items = [rng.choice(segs) + o, n + o]
        rng.shuffle(items)
        return {"op": "add", "line": "%s\t%s\t%s" % (x.rt, n, " ".join(items)), "as": rng.choice(["str", "line"]),
                "expect": "probe"}
    if v == "gfa2" and groups and segs and rng.random() < 0.3:
        # one more line of a group which defines a tag of the group differently (also when the
        # stored value is 0 / empty, and when the new one is); if a tag is missing it is given first
        n, x = rng.choice(groups)
        item = rng.choice(segs) + ("+" if x.rt == "O" else "")
        if x.tags:
            tn, dt, val = rng.choice(x.tags)
        else:
            tn, dt, val = rng.choice([("nr", "i", "0"), ("fz", "f", "0.0"), ("jj", "J", "[]"), ("nn", "i", "5"),
                                      ("zz", "Z", "a")])
            return {"op": "settag", "name": n, "text": x.text(), "tag": tn, "dt": dt, "value": val, "rt": x.rt}
        other = {"i": ["0", "7", "-1"], "f": ["0.0", "2.5"], "Z": ["other", "0"], "A": ["x", "y"],
                 "J": ["[]", "[1]", "{}"], "H": ["00", "1A"], "B": ["c,1", "f,0.5"]}[dt]
        other = [o for o in other if o != val] or ["1"]
        return {"op": "add", "line": "%s\t%s\t%s\t%s:%s:%s" % (x.rt, n, item, tn, dt, rng.choice(other)),
                "as": rng.choice(["str", "line"]), "expect": "probe"}
    if rng.random() < 0.15:
        # a line built by hand at level 0 (nothing was checked when it was built) which carries a
        # tag the Gfa would not have accepted in text form, as a new line or as a further line of
        # an existing group
        poke = rng.choice([("x", 1), ("xyz", "a"), ("1a", 2), ("aa", "a\tb"), ("bb", float("inf")), ("LN", "q")])
        groups = [(n, x) for n, x in named if x.rt in ("O", "U")]
        fresh = [f for f in FRESH if f not in sim.names()]
        if segs and fresh and rng.random() < 0.5:
            # ... or a positional field which was given, after the line was built, a string that is
            # not of its datatype (read only when the line is filed)
            a, b = rng.choice(segs), rng.choice(segs)
            f0 = fresh[0]
            tmpl = {"gfa1": {"L": "L\t%s\t+\t%s\t-\t*" % (a, b), "C": "C\t%s\t+\t%s\t-\t0\t*" % (a, b),
                             "P": "P\t%s\t%s+,%s-\t*" % (f0, a, b)},
                    "gfa2": {"E": "E\t%s\t%s+\t%s-\t0\t1\t0\t1\t*" % (f0, a, b), "G": "G\t%s\t%s+\t%s-\t5\t*" % (f0, a, b),
                             "F": "F\t%s\tread1+\t0\t1\t0\t1\t*" % a, "O": "O\t%s\t%s+" % (f0, a),
                             "U": "U\t%s\t%s" % (f0, a)}}[v]
            rt = rng.choice(sorted(tmpl))
            poke = rng.choice(POS_POKES[rt])
            return {"op": "add", "line": tmpl[rt], "as": rng.choice(["line0", "line"]), "poke": list(poke), "expect": "probe"}
        if v == "gfa2" and groups and segs and rng.random() < 0.6:
            n, x = rng.choice(groups)
            line = "%s\t%s\t%s" % (x.rt, n, rng.choice(segs) + ("+" if x.rt == "O" else ""))
        elif segs and fresh:
            a, b = rng.choice(segs), rng.choice(segs)
            line = {"gfa1": rng.choice(["S\t%s\t*" % fresh[0], "L\t%s\t+\t%s\t-\t*" % (a, b)]),
                    "gfa2": rng.choice(["S\t%s\t10\t*" % fresh[0], "G\t%s\t%s+\t%s-\t5\t*" % (fresh[0], a, b),
                                        "U\t%s\t%s" % (fresh[0], a)])}[v]
        else:
            return None
        return {"op": "add", "line": line, "as": "line0", "poke": list(poke), "expect": "probe"}
    bad = rng.choice(nonsegs)
    name = rng.choice((undefined or fresh[:1]) + fresh[:1] + ["*"])
    if v == "gfa1":
        k = rng.randint(2, 5)
        items = [rng.choice(pool) for _ in range(k)]
        items[rng.randrange(1 if k == 2 else 0, k)] = bad
        if rng.random() < 0.2:
            items[rng.randrange(k)] = rng.choice(nonsegs)
        r = rng.random()
        if r < 0.6:
            pn = name if name != "*" and S.fm("name1", name) else "pq"
            line = "P\t%s\t%s\t%s" % (pn, ",".join(i + rng.choice("+-") for i in items),
                                      rng.choice(["*", ",".join(["*"] * (k - 1))]))
        elif r < 0.8:
            line = "L\t%s\t+\t%s\t-\t*" % (items[0], items[1])
        else:
            line = "C\t%s\t+\t%s\t-\t0\t*" % (items[0], items[1])
    else:
        a, b = rng.choice(pool), bad
        if rng.random() < 0.5:
            a, b = b, a
        r = rng.random()
        if r < 0.35:
            line = "E\t%s\t%s+\t%s-\t0\t1\t0\t1\t*" % (name, a, b)
        elif r < 0.5:
            line = "G\t%s\t%s+\t%s-\t10\t*" % (name, a, b)
        elif r < 0.6:
            line = "F\t%s\tread+\t0\t1\t0\t1\t*" % bad
        else:
            # a group that lists something it may not list (a set inside a path), after valid items
            sets = [n for n, x in named if x.rt == "U"] or nonsegs
            k = rng.randint(2, 4)
            items = [rng.choice(pool) for _ in range(k)]
            items[rng.randrange(1, k)] = rng.choice(sets)
            line = "O\t%s\t%s" % (name, " ".join(i + rng.choice("+-") for i in items))
    return {"op": "add", "line": line, "as": rng.choice(["str", "line"]), "expect": "probe"}


def _gen_failing_step(rng, sim, named):
    """a step the model marks as expected-to-fail with a gfapy.Error, leaving the state alone."""
    k = rng.random()
    v = sim.version
    if rng.random() < PROBE_RATE:
        return _gen_probe_step(rng, sim, named)
    if v == "gfa1" and rng.random() < 0.12:
        # a link which mirrors a stored containment (its segments swapped, both orientations inverted,
        # the overlap complemented) and carries its identifier: not the complement of a link, a clash
        cs = [x for x in sim.recs if x.rt == "C" and x.tag("ID")]
        if cs:
            x = rng.choice(cs)
            f, fo, t, to, pos, ov = x.pos[:6]
            return {"op": "add", "line": "L\t%s\t%s\t%s\t%s\t%s\tID:Z:%s" % (t, S.inv(to), f, S.inv(fo),
                                                                          S.cigar_complement(ov) if ov != "*" else ov, x.tag("ID")[1]),
                    "as": rng.choice(["str", "line"])}
    if v == "gfa1" and rng.random() < 0.1:
        # a link which joins the ends of a stored link the other way round with ANOTHER overlap (not its
        # complement, a different edge) and carries its identifier
        ls = [x for x in sim.recs if x.rt == "L" and x.tag("ID")]
        if ls:
            x = rng.choice(ls)
            f, fo, t, to, ov = x.pos[:5]
            other = rng.choice([o for o in ("3M", "4M", "2M1I", "7M") if o != ov and S.cigar_complement(o) != ov])
            return {"op": "add", "line": "L\t%s\t%s\t%s\t%s\t%s\tID:Z:%s" % (t, S.inv(to), f, S.inv(fo), other, x.tag("ID")[1]),
                    "as": rng.choice(["str", "line"])}
    if v == "gfa1" and named and rng.random() < 0.25:
        # a link which takes the place of the placeholder link of a path (the path arrived first), and
        # which carries an identifier that is in use
        steps_open = []
        for x in sim.recs:
            if x.rt == "P":
                for stp in T.path_steps(x):
                    if not any(T.link_supports(l, stp) for l in sim.recs if l.rt == "L"):
                        steps_open.append(stp)
        if steps_open:
            a, ao, b, bo, ov = rng.choice(steps_open)
            n, r = rng.choice(named)
            if rng.random() < 0.5:
                # (written the other way round: the complement of the step)
                a, ao, b, bo = b, S.inv(bo), a, S.inv(ao)
                ov = S.cigar_complement(ov) if ov != "*" else ov
            return {"op": "add", "line": "L\t%s\t%s\t%s\t%s\t%s\tID:Z:%s" % (a, ao, b, bo, ov if rng.random() < 0.7 else "*", n),
                    "as": rng.choice(["str", "line"]), "expect": "model"}
    if k < 0.35 and len(named) >= 1:
        # add a record whose identifier is in use (every ordered pair of record types)
        n, r = rng.choice(named)
        segs = [x.pos[0] for x in sim.recs if x.rt == "S"]
        if not segs:
            return None
        a, b = rng.choice(segs), rng.choice(segs)
        if v == "gfa1":
            line = rng.choice(["S\t%s\t*" % n, "P\t%s\t%s+\t*" % (n, a),
                               "L\t%s\t+\t%s\t-\t7M3D\tID:Z:%s" % (a, b, n),
                               "C\t%s\t+\t%s\t-\t2\t*\tID:Z:%s" % (a, b, n)])
        else:
            line = rng.choice(["S\t%s\t20\t*" % n, "E\t%s\t%s+\t%s-\t0\t1\t0\t1\t*" % (n, a, b),
                               "G\t%s\t%s+\t%s-\t10\t*" % (n, a, b), "O\t%s\t%s+" % (n, a),
                               "U\t%s\t%s" % (n, a)])
        return {"op": "add", "line": line, "as": rng.choice(["str", "line"]), "expect": "model"}
    if k < 0.55 and len(named) >= 2:
        (n1, r1), (n2, r2) = rng.sample(named, 2)
        if v == "gfa1" and r1.rt in ("S", "P") and not S.fm("name1", n2):
            return None
        return {"op": "rename", "name": n1, "new": n2, "rt": r1.rt, "expect": "model", "text": r1.text()}
    if k < 0.60:
        return {"op": "rm", "how": "name", "name": rng.choice(["nosuch", "*", "", "?"]), "rt": "?",
                "text": "", "expect": "fail"}
    if k < 0.65 and named:
        # rename to a name the datatype of the identifier cannot hold
        n, r = rng.choice(named)
        if r.rt in ("L", "C"):
            return None
        return {"op": "rename", "name": n, "new": rng.choice([" ", "a b", "", "a\tb"]), "rt": r.rt,
                "expect": "fail"}
    if k < 0.80:
        # version conflict / malformed line
        if v == "gfa1":
            line = rng.choice(["E\t*\ta+\tb-\t0\t1\t0\t1\t*", "S\tzz\t10\t*", "G\t*\ta+\tb+\t1\t*",
                               "H\tVN:Z:2.0", "L\ta\t+\tb", "S\tq\tAC GT", "L\ta\t?\tb\t+\t*",
                               "C\ta\t+\tb\t+\t-1\t*", "P\tpp\ta+,b+\t1M,2M,3M", "X\tcustom",
                               "S\ts\t*\txx:i:a", "S\ts\t*\tLN:Z:1", "H\tVN:Z:3.0", "S\tdup\t*\taa:i:1\taa:i:2"])
        else:
            line = rng.choice(["L\ta\t+\tb\t-\t*", "S\tzz\t*", "P\tp\ta+\t*", "C\ta\t+\tb\t+\t0\t*",
                               "H\tVN:Z:1.0", "E\t*\ta+\tb-\t0\t1", "E\t*\ta+\tb-\t5\t1\t0\t1\t*",
                               "S\tq\t-\t*", "E\t*\ta\tb-\t0\t1\t0\t1\t*", "G\t*\ta+\tb+\tx\t*",
                               "F\ta\tr\t0\t1\t0\t1\t*", "O\t*\t", "S\ts\t1\t*\txx:i:a", "H\tVN:Z:3.0",
                               "E\t*\ta+\tb-\t$\t1\t0\t1\t*", "S\tdup\t1\t*\taa:i:1\taa:i:2"])
        return {"op": "add", "line": line, "as": "str", "expect": "fail"}
    if k < 0.9:
        # illegal edit of a connected line
        cand = [r for r in sim.recs if r.rt in ("L", "C", "E", "G", "F", "O", "U", "P")]
        if not cand:
            return None
        r = rng.choice(cand)
        field = {"L": "from_segment", "C": "to_segment", "E": "sid1", "G": "sid2", "F": "sid",
                 "O": "items", "U": "items", "P": "segment_names"}[r.rt]
        return {"op": "setfield", "name": T.ident(r), "text": r.text(), "rt": r.rt, "field": field,
                "value": "zz", "expect": "fail"}
    # header conflicts
    line = rng.choice(["H\tVN:Z:9.9", "H\taa:i:1\tVN:Z:%s" % ("2.0" if v == "gfa1" else "1.0"),
                       "H\tbb:Z:x\tTS:i:1\tTS:i:2"])
    return {"op": "add", "line": line, "as": "str", "expect": "fail"}


def rename_verdict(model, r, new):
    if new == "*":
        # the identifier is removed: possible for the record types whose identifier is optional,
        # unless a group refers to the record by that identifier
        if model.version != "gfa2" or r.rt not in ("E", "G", "O", "U"):
            return "skip"
        old = T.ident(r)
        if any(m == old for x in model.recs for m, role in T.mentions(x)):
            return "fail"
        return "ok"
    if new in model.names():
        other = model.by_name(new)
        if other is r:
            return "skip"
        if r.rt in ("O", "U") and other.rt in ("O", "U"):
            return "unspec"
        return "dup"
    # a mentioned-but-undefined identifier: the renamed record takes the placeholder's
    # place only if it can play every role in which the identifier is mentioned
    roles = set()
    for x in model.recs:
        for m, role in T.mentions(x):
            if m == new:
                roles.add(role)
    if roles:
        if model.version == "gfa1" and r.rt == "S":
            # two links which become links between the same segment ends are parallel links:
            # whether the second one is a duplicate depends on its overlap (UNSPECIFIED, §3.1)
            old = T.ident(r)
            seen = set()
            for x in model.recs:
                if x.rt == "L":
                    f, fo, t, to = [new if y == old else y for y in x.pos[:4]]
                    inv = {"+": "-", "-": "+"}
                    k = min((f, fo, t, to), (t, inv.get(to, to), f, inv.get(fo, fo)))
                    if k in seen:
                        return "unspec"
                    seen.add(k)
        if model.version == "gfa2" and r.rt == "S":
            # the positions of the edges/fragments which mention the identifier were written for
            # another segment length: the resulting text need not be a valid document
            try:
                slen = int(r.pos[1])
            except ValueError:
                return "unspec"
            if not all(T.positions_fit(x, new, slen) for x in model.recs if x.rt in ("E", "F")):
                return "unspec"
        if any(m == new for m, role in T.mentions(r)):
            return "fail"           # the record would become its own item
        if r.rt == "S" or (roles == {"item"} and r.rt in ("E", "O")):
            return "ok"
        return "unspec"
    return "ok"


def _find_model_rec(sim, st):
    if st.get("name") is not None:
        r = sim.by_name(st["name"])
        if r is not None:
            if st.get("rt") and r.rt != st["rt"]:
                # (the step was generated for a record of another type which carried this identifier
                #  in the generator's model: a probe it took for accepted was refused)
                return None
            return r
    for r in sim.recs:
        if r.text() == st.get("text"):
            return r
    return None


def _apply_model(sim, st, removed_pool=None):
    """apply a step to the model; returns the model's verdict for the step."""
    op = st["op"]
    if st.get("expect") == "fail":
        return "fail"
    if op == "add":
        rec = S.parse_line(st["line"], sim.version)
        v = sim.add_verdict(rec)
        if v in ("ok", "merge"):
            sim.add(rec)
        return v
    r = _find_model_rec(sim, st)
    if r is None:
        return "skip"
    if op == "rm":
        gone = sim.remove(r)
        if removed_pool is not None:
            for x in gone:
                if x.rt != "H" and len(removed_pool) < 40 and not (x.rt in ("O", "U") and not x.pos[1].strip()):
                    removed_pool.append(x.text())
        return "ok"
    if op == "rename":
        v = rename_verdict(sim, r, st["new"])
        if v == "ok":
            sim.rename(r, st["new"])
        return v
    if op == "settag":
        sim.set_tag(r, st["tag"], st["dt"], st["value"])
        return "ok"
    if op == "deltag":
        sim.del_tag(r, st["tag"])
        return "ok"
    if op == "setext":
        r.pos[1] = st["value"]
        return "ok"
    if op == "reconnect":
        v, _n = _reconnect_verdict(sim, r, st)
        if v == "ok":
            _reconnect_verdict(sim, r, st, commit=True)
        return v
    return "skip"


# ----------------------------------------------------------------- execution
def find_line(g, st, version):
    """the gfapy line a step designates (by identifier, else by canonical text)."""
    n = st.get("name")
    if n is not None and st.get("rt") not in ("L", "C"):
        l = g.line(n)
        if l is not None:
            return l
    want = S.canon_doc([st["text"]], version, split_headers=False) if st.get("text") else None
    for l in g.lines:
        if l.virtual or l.record_type == "H":
            continue
        if st.get("rt") and l.record_type != st["rt"]:
            continue
        if want is not None and S.canon_doc([O.safe_str(l)], version, split_headers=False) == want:
            return l
    return None


def real_text(g):
    return [O.safe_str(l) for l in g.lines if not l.virtual]


def py_tag_value(dt, text):
    if dt == "i":
        return int(text)
    if dt == "f":
        return float(text)
    return text


def do_step(ctx, g, st, version, vlevel):
    """perform the step on g through the public API; returns Outcome (or None = not applicable)."""
    op = st["op"]
    if op == "add":
        if st["as"] in ("line", "line0"):
            lv = {}
            rt = st["line"].split("\t")[0]
            if rt not in ("H", "S", "#") or len(rt) != 1:
                lv = {"version": version}
            lr = call(ctx, "Line(str)", gfapy.Line, st["line"], vlevel=(0 if st["as"] == "line0" else vlevel), **lv)
            if not lr.ok:
                return lr
            if st.get("poke"):
                # (a hand-built line may carry anything: a tag name or a value which the Gfa's own
                #  level would have refused)
                pk = call(ctx, "set on a hand-built level-0 line", lr.value.set, st["poke"][0], st["poke"][1])
                if not pk.ok:
                    return pk
            return call(ctx, "add_line(Line)", g.add_line, lr.value)
        return call(ctx, "add_line(str)", g.add_line, st["line"])
    if op == "rm" and st["how"] == "name" and st.get("expect") == "fail":
        return call(ctx, "rm(name)", g.rm, st["name"])
    l = find_line(g, st, version)
    if l is None:
        return None
    if op == "rm":
        if st["how"] == "name":
            return call(ctx, "rm(name)", g.rm, st["name"])
        if st["how"] == "line":
            return call(ctx, "rm(line)", g.rm, l)
        return call(ctx, "disconnect", l.disconnect)
    if op == "rename":
        def ren():
            l.name = st["new"]
        return call(ctx, "rename", ren)
    if op == "settag":
        def sett():
            l.set_datatype(st["tag"], st["dt"])
            l.set(st["tag"], py_tag_value(st["dt"], st["value"]))
        return call(ctx, "set(tag)", sett)
    if op == "settag-default":
        val = st["value"]
        if isinstance(val, str) and val.startswith("@"):
            val = float(val[1:])
        out = call(ctx, "set(new tag, no datatype)", l.set, st["tag"], val)
        if not out.ok:
            left = call(ctx, "get_datatype", l.get_datatype, st["tag"])
            if st["tag"] in l.tagnames or (left.ok and left.value is not None):
                ctx.violation("state-changed-by-failed-call/refused-tag-left-behind/%s" % st["rt"],
                              "set(%r, %r) on %r raised %s; tagnames %r, datatype %r"
                              % (st["tag"], val, st["text"], out.cls(), l.tagnames, left.value if left.ok else left.cls()), prop="C08")
        return out
    if op == "deltag":
        return call(ctx, "delete(tag)", l.delete, st["tag"])
    if op == "setfield":
        return call(ctx, "set(reference field)", l.set, st["field"], st["value"])
    if op == "setext":
        return call(ctx, "set(external)", l.set, "external", st["value"])
    if op == "reconnect":
        oldp = st["text"].split("\t")[1:]
        newp = st["newtext"].split("\t")[1:]
        edits = [(f, newp[i]) for i, f in enumerate(RECONNECT_FIELDS[st["rt"]]) if oldp[i] != newp[i]]

        def recon():
            l.disconnect()
            for f, val in edits:
                l.set(f, val)
            g.add_line(l)
        return call(ctx, "disconnect;edit;add_line(same object)", recon)
    raise HarnessError("unknown op " + op)


def fresh_obs(ctx, model, vlevel):
    with hooks.suspended():
        r = call(ctx, "Gfa(model text)", gfapy.Gfa, model.text_lines(), version=model.version,
                 vlevel=vlevel)
    if not r.ok:
        return None, r
    return O.obs(r.value), r


def _sort_tags(text):
    f = text.split("\t")
    i = len(f)
    while i > 1 and S.TAGRE.fullmatch(f[i - 1]):
        i -= 1
    return "\t".join(f[:i] + sorted(f[i:]))


def strip_volatile(o):
    """obs without what legitimately differs between a mutated graph and a fresh parse: the order
    of the tags of a line (the properties speak of the tag *set*; a group line assembled from
    several U/O lines lists the tags in an order which depends on the history)."""
    if isinstance(o, str):
        return _sort_tags(o) if "\t" in o else o
    if isinstance(o, dict):
        return {strip_volatile(k): strip_volatile(v) for k, v in o.items()}
    if isinstance(o, list):
        return [strip_volatile(x) for x in o]
    if isinstance(o, tuple):
        return tuple(strip_volatile(x) for x in o)
    return o


def run_history(case, ctx, compare_every=True, after_step=None, at_end=None):
    """after_step(g, model, step): called after every successful step on a closed, specified state
    (used by C11/C16 to judge neighbourhoods/topology after arbitrary histories)."""
    version = case["version"]
    vlevel = case.get("vlevel", 1)
    g = gfapy.Gfa(version=version, vlevel=vlevel)
    model = T.Model(version)
    nsteps = 0
    shape = []
    for si, st in enumerate(case["steps"]):
        verdict = _apply_model_preview(model, st)
        if st.get("expect") == "probe" and (verdict not in ("ok", "merge") or st.get("poke")):
            # the model has no verdict: WHEN the call raises, the Gfa must be unchanged
            before = O.obs(g)
            out = do_step(ctx, g, st, version, vlevel)
            if out is None:
                return shape
            ctx.count("probe_calls")
            if out.ok:
                ctx.count("probe_calls_accepted")
                return shape        # the state is not one the model can follow
            ctx.count("failing_calls")
            ctx.count("probe_calls_failed")
            ctx.add("failure_classes", "probe/%s/%s" % (st["line"].split("\t")[0], out.cls()))
            after = O.obs(g)
            if after != before:
                d = O.diff_obs(before, after)
                ctx.violation("state-changed-by-failed-call/probe-%s/%s" % (st["line"].split("\t")[0], _what_changed(d)),
                              "step %d %r raised %s but the Gfa changed:\n  %s"
                              % (si, st, out.cls(), "\n  ".join(d[:4])), prop="C08")
            shape.append("F:probe")
            if ctx.prop == "C09":
                _placeholder_oracle(ctx, g, model, st, si, "after-refused-")
            if after_step is not None and model.closed() and not model.unspecified_state():
                ctx.count("judged_after_refused_call")
                if after_step(g, model, st):
                    return shape
            continue
        if verdict == "skip" or verdict == "unspec":
            ctx.count("steps_skipped_" + verdict)
            continue
        if verdict == "ok" and st["op"] == "rename" and st.get("rt") != "S":
            # a placeholder keeps the record type it was given by a line which mentioned it in
            # another role and has been removed since: that type is not part of the written
            # content, the model cannot know it, and the rename may legitimately be refused
            try:
                ph = g.line(st["new"])
            except Exception:
                ph = None
            if ph is not None and ph.virtual and ph.record_type not in ("\n", st.get("rt")):
                ctx.count("steps_skipped_typed_placeholder")
                continue
        if verdict == "ok" and st["op"] == "add":
            # (the same for a line added under an identifier whose placeholder still has the type
            #  given by a line which has been removed since)
            try:
                nrec = S.parse_line(st["line"], version)
                nrec.version = nrec.version or version
                nid = T.ident(nrec)
                ph = g.line(nid) if nid is not None else None
            except Exception:
                ph = None
            if ph is not None and ph.virtual and ph.record_type not in ("\n", nrec.rt):
                ctx.count("steps_skipped_typed_placeholder")
                continue
        expect_fail = verdict in ("dup", "fail")
        before = O.obs(g) if expect_fail else None
        out = do_step(ctx, g, st, version, vlevel)
        if out is None:
            ctx.count("steps_not_applicable")
            # model and gfapy disagree on what exists: the history cannot continue
            return shape
        nsteps += 1
        ctx.count("steps")
        ctx.count("op:" + st["op"] + ("!" if expect_fail else ""))
        if expect_fail:
            kind = _fail_class(st, model)
            if out.ok:
                if verdict == "dup":
                    a, b = _dup_types(model, st)
                    ctx.violation("duplicate-accepted/%s/%s-over-%s" % (st["op"], a, b),
                                  "step %d %r succeeded although identifier is in use (no NotUniqueError)"
                                  % (si, st), prop="C09")
                    ctx.count("dup_accepted")
                    return shape
                # a line the harness thought illegal was accepted: only C04 cares; the model
                # state is now unknown
                ctx.count("expected_failure_accepted")
                return shape
            ctx.count("failing_calls")
            ctx.add("failure_classes", "%s/%s" % (kind, out.cls()))
            if verdict == "dup" and not isinstance(out.exc, gfapy.NotUniqueError) and out.kind == "gfapy":
                ctx.violation("duplicate-wrong-class/%s/%s" % (st["op"], out.cls()),
                              "step %r raised %s instead of NotUniqueError" % (st, out.cls()), prop="C09")
            after = O.obs(g)
            if after != before:
                d = O.diff_obs(before, after)
                ctx.violation("state-changed-by-failed-call/%s/%s" % (kind, _what_changed(d)),
                              "step %d %r raised %s but the Gfa changed:\n  %s"
                              % (si, st, out.cls(), "\n  ".join(d[:4])), prop="C08")
            shape.append("F:" + kind)
            if ctx.prop == "C09":
                _placeholder_oracle(ctx, g, model, st, si, "after-refused-")
            if after_step is not None and model.closed() and not model.unspecified_state():
                ctx.count("judged_after_refused_call")
                if after_step(g, model, st):
                    return shape
            continue
        # expected success
        if not out.ok:
            ctx.violation("legal-step-refused/%s/%s/%s" % (st["op"], st.get("rt") or st["line"].split("\t")[0], out.cls()),
                          "step %d %r is legal per the text model but raised %s: %s"
                          % (si, st, out.cls(), str(out.exc)[:300]), prop="C05")
            return shape
        removed = _apply_model_commit(model, st)
        shape.append(st["op"] + ":" + (st.get("rt") or st["line"].split("\t")[0]) + (":cascade%d" % removed if removed else ""))
        if removed and removed >= 2:
            ctx.count("cascading_removals")
        # ---- C09: every identifier of the model is looked up to the record which carries it
        _lookup_oracle(ctx, g, model, st, si, version)
        if after_step is not None and model.closed() and not model.unspecified_state():
            if after_step(g, model, st):
                return shape
        # ---- C05: content == text the history denotes
        if model.unspecified_state():
            ctx.count("unspecified_states")
            continue
        want = _once_headers(S.canon_doc(model.text_lines(), version))
        got = _once_headers(S.canon_doc(real_text(g), version))
        ctx.count("text_comparisons")
        if want != got:
            missing = [x for x in want if x not in got]
            extra = [x for x in got if x not in want]
            ctx.violation("text-differs/%s/%s/%s" % (st["op"], st.get("rt") or "", _mx(missing, extra)),
                          "after step %d %r\n missing: %r\n extra: %r" % (si, st, missing[:3], extra[:3]), prop="C05")
            return shape
        if model.closed() and not model.unspecified_state() and (compare_every or si == len(case["steps"]) - 1):
            fo, fr = fresh_obs(ctx, model, vlevel)
            ctx.count("fresh_parse_comparisons")
            if fo is None:
                ctx.violation("model-text-refused/%s" % fr.cls(), "text after step %d refused: %s"
                              % (si, str(fr.exc)[:300]), prop="C05")
                return shape
            go = strip_volatile(O.obs(g))
            fo = strip_volatile(fo)
            if isinstance(go.get("text"), list):
                go["text"].sort()
                fo["text"].sort()
            if go != fo:
                d = O.diff_obs(fo, go)
                ctx.violation("graph-differs-from-fresh-parse/%s/%s/%s" % (st["op"], st.get("rt") or "", _what_changed(d)),
                              "after step %d %r (fresh parse vs mutated):\n  %s" % (si, st, "\n  ".join(d[:4])),
                              prop="C05")
                if ctx.prop == "C05":
                    return shape
                # (a bystander here: the written content still follows the model, so the history goes
                #  on and the property under check is judged by its own oracle)
                compare_every = False
    if at_end is not None:
        at_end(g, model)
    return shape


def _lookup_oracle(ctx, g, model, st, si, version):
    """the identifiers which the text model holds after the step, against the lookups of the Gfa
    (names, line(), segment()): each is listed once and found as a real line which writes the
    record of the model; an identifier which the step freed is not found (or only as placeholder)."""
    want = model.names()
    try:
        listed = list(g.names)
    except Exception as e:
        ctx.violation("names-raises/%s" % type(e).__name__, "after step %d %r" % (si, st), prop="C09")
        return
    ctx.count("lookup_oracle_evaluations")
    for n, rec in want.items():
        ctx.count("lookups")
        c = listed.count(n)
        if c != 1:
            ctx.violation("names-count/%s/%s/%d" % (st["op"], rec.rt, min(c, 2)),
                          "after step %d %r: identifier %r is listed %d times in names" % (si, st, n, c),
                          prop="C09")
            return
        try:
            l = g.line(n)
        except Exception as e:
            ctx.violation("lookup-raises/%s" % type(e).__name__, "line(%r) after step %d %r" % (n, si, st), prop="C09")
            return
        if l is None or l.virtual:
            ctx.violation("lookup-misses/%s/%s" % (st["op"], rec.rt),
                          "after step %d %r: line(%r) returns %s, the model holds %r"
                          % (si, st, n, "a placeholder" if l is not None else None, rec.text()), prop="C09")
            return
        if rec.rt in ("O", "U") and not rec.pos[1].strip():
            continue                # an emptied group: how it is written is UNSPECIFIED
        if S.canon_doc([O.safe_str(l)], version, split_headers=False) != \
                S.canon_doc([rec.text()], version, split_headers=False):
            ctx.violation("lookup-wrong-line/%s/%s" % (st["op"], rec.rt),
                          "after step %d %r: line(%r) returns %r, the model holds %r"
                          % (si, st, n, O.safe_str(l), rec.text()), prop="C09")
            return
        if rec.rt == "S" and g.segment(n) is not l:
            ctx.violation("segment-lookup-differs/%s" % st["op"], "after step %d %r: segment(%r) is not line(%r)"
                          % (si, st, n, n), prop="C09")
            return
    # line objects obtained earlier (placeholders included): one which still claims to belong to
    # the Gfa is the line which the Gfa returns for its identifier
    kept = g.__dict__.setdefault("_verif_kept_objects", {})
    for oid, obj in list(kept.items()):
        try:
            conn, nm = obj.is_connected(), obj.name
        except Exception:
            continue
        ctx.count("kept_objects_checked")
        if conn and isinstance(nm, str) and nm != "*":
            cur = g.line(nm)
            if cur is not obj:
                ctx.violation("replaced-line-object-still-connected/%s/%s"
                              % (st["op"], "placeholder" if obj.virtual else obj.record_type),
                              "after step %d %r: an object obtained earlier for %r (%s) claims to be connected, "
                              "but line(%r) is another object" % (si, st, nm, O.safe_str(obj), nm), prop="C02")
                return
        if not conn:
            del kept[oid]
    for n in list(want) + [m for x in model.recs for m, role in T.mentions(x)]:
        try:
            l = g.line(n)
        except Exception:
            l = None
        if l is not None and len(kept) < 200:
            kept[id(l)] = l
    # placeholders exist exactly for the identifiers which are mentioned but not defined
    mentioned = {m for x in model.recs for m, role in T.mentions(x)}
    try:
        virt = [l for l in g.lines if l.virtual and l.record_type in ("S", "\n")]
    except Exception:
        virt = []
    for l in virt:
        ctx.count("placeholders_checked")
        try:
            pn = l.name
        except Exception:
            continue
        if isinstance(pn, str) and (pn not in mentioned or pn in want):
            ctx.violation("stale-placeholder/%s/%s" % (st["op"], "defined" if pn in want else "unmentioned"),
                          "after step %d %r: a placeholder for %r is kept although %s"
                          % (si, st, pn, "a line carries that identifier" if pn in want else "no line mentions it"),
                          prop="C09")
            return
    if ctx.prop == "C09" and any(m not in want and m.isdigit() for m in mentioned):
        # an integer-looking identifier is referred to but not defined: unused_name() must not hand it out
        try:
            un = g.unused_name()
        except Exception:
            un = None
        ctx.count("unused_names_asked_with_dangling_integer")
        if un is not None and (un in want or un in mentioned):
            ctx.violation("unused-name-in-use/%s" % ("carried" if un in want else "mentioned"),
                          "after step %d %r: unused_name() returned %r; carried %r, mentioned %r"
                          % (si, st, un, sorted(want), sorted(mentioned)), prop="C09")
            return
    freed = None
    if st["op"] == "rename":
        freed = st["name"]
    elif st["op"] == "rm":
        freed = st.get("name")
    elif st["op"] == "deltag" and st["tag"] == "ID":
        freed = st.get("name")
    if freed is not None and freed not in want:
        try:
            l = g.line(freed)
        except Exception:
            l = None
        ctx.count("freed_lookups")
        if l is not None and not l.virtual:
            ctx.violation("freed-identifier-found/%s" % st["op"],
                          "after step %d %r: line(%r) still returns %r" % (si, st, freed, O.safe_str(l)), prop="C09")
        elif freed in listed and not any(m == freed for x in model.recs for m, role in T.mentions(x)):
            ctx.violation("freed-identifier-listed/%s" % st["op"],
                          "after step %d %r: %r is still listed in names" % (si, st, freed), prop="C09")


def _placeholder_oracle(ctx, g, model, st, si, prefix=""):
    """placeholders exist exactly for the identifiers which are mentioned but not defined; every
    identifier which gfa.names lists is carried by a record or mentioned by one."""
    want = model.names()
    mentioned = {m for x in model.recs for m, role in T.mentions(x)}
    try:
        virt = [l for l in g.lines if l.virtual and l.record_type in ("S", "\n")]
        listed = [n for n in g.names if isinstance(n, str)]
    except Exception:
        return
    ctx.count("placeholder_oracle_evaluations")
    for l in virt:
        try:
            pn = l.name
        except Exception:
            continue
        if isinstance(pn, str) and (pn not in mentioned or pn in want):
            ctx.violation("stale-placeholder/%s%s/%s" % (prefix, st["op"], "defined" if pn in want else "unmentioned"),
                          "after step %d %r: a placeholder for %r is kept although %s"
                          % (si, st, pn, "a line carries that identifier" if pn in want else "no line mentions it"), prop="C09")
            return
    for n in listed:
        if n not in want and n not in mentioned:
            ctx.violation("names-extra/%s%s" % (prefix, st["op"]), "after step %d %r: names lists %r, which no record carries or mentions"
                          % (si, st, n), prop="C09")
            return


def _once_headers(canon):
    """a single-definition header tag (VN, TS) given again with the same value is one definition."""
    out = []
    for x in canon:
        if x[0] == "H" and x in out and any(t[0] in ("VN", "TS") for t in x[2]):
            continue
        out.append(x)
    return out


def _mx(missing, extra):
    if missing and not extra:
        return "missing-" + missing[0][0]
    if extra and not missing:
        return "extra-" + extra[0][0]
    return "changed-" + (missing or extra or [("?",)])[0][0]


def _what_changed(d):
    if not d:
        return "?"
    p = d[0].split(":")[0].strip("/").split("/")
    if p[0] == "lines" and len(p) >= 3:
        return "lines/" + "/".join(p[2:4])
    return p[0]


def _fail_class(st, model):
    if st["op"] == "add":
        rt = st["line"].split("\t")[0]
        if st.get("expect") == "model":
            return "duplicate-add/" + rt
        return "bad-add/" + rt
    if st["op"] == "rename":
        if st.get("expect") == "fail":
            return "rename-to-invalid/" + st.get("rt", "?")
        return "rename-to-used/" + st.get("rt", "?")
    if st["op"] == "settag":
        return "identifier-tag-to-used/" + st.get("rt", "?")
    if st["op"] == "rm":
        return "rm-unknown"
    if st["op"] == "setfield":
        return "edit-reference-field/" + st.get("rt", "?")
    return st["op"]


def _dup_types(model, st):
    if st["op"] == "add":
        rec = S.parse_line(st["line"], model.version)
        prev = model.by_name(T.ident(rec))
        return rec.rt, (prev.rt if prev else "?")
    prev = model.by_name(st["new"] if st["op"] == "rename" else st.get("value"))
    return st.get("rt", "?"), (prev.rt if prev else "?")


def _apply_model_preview(model, st):
    """verdict of the model for the step without changing it."""
    op = st["op"]
    if st.get("expect") == "fail":
        return "fail"
    if op == "add":
        rec = S.parse_line(st["line"], model.version)
        return model.add_verdict(rec)
    r = _find_model_rec(model, st)
    if r is None:
        return "skip"
    if op == "rename":
        return rename_verdict(model, r, st["new"])
    if op == "reconnect":
        if r.text() != st["text"]:
            # the record is not (any more) the one the step was generated for (a probe the generator
            # took for accepted was refused, or the other way round): the edit is not applicable
            return "skip"
        return _reconnect_verdict(model, r, st)[0]
    if op == "settag" and st["tag"] == "ID" and r.rt in ("L", "C"):
        other = model.by_name(st["value"])
        if other is not None and other is not r:
            return "dup"
        if any(m == st["value"] for x in model.recs for m, role in T.mentions(x)):
            return "unspec"         # the identifier of a link cannot stand for a segment
    return "ok"


def _apply_model_commit(model, st):
    op = st["op"]
    if op == "add":
        model.add(S.parse_line(st["line"], model.version))
        return 0
    r = _find_model_rec(model, st)
    if op == "rm":
        return len(model.remove(r)) - 1
    if op == "rename":
        model.rename(r, st["new"])
    elif op == "settag":
        model.set_tag(r, st["tag"], st["dt"], st["value"])
    elif op == "deltag":
        model.del_tag(r, st["tag"])
    elif op == "setext":
        r.pos[1] = st["value"]
    elif op == "reconnect":
        return _reconnect_verdict(model, r, st, commit=True)[1]
    return 0
