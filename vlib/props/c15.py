"""C15 — segment multiplication makes faithful copies and splits the counts."""
import math
import gfapy
from ..gen import docs as G
from ..spec import grammar as S
from ..spec import textmodel as T
from ..mon import obs as O
from ..mon import hooks
from ..mon import invariants
from ..mon.client import call

from ..ctx import level_of

ID = "C15"
COUNT_TAGS = ("RC", "FC", "KC")


def setup(ctx):
    hooks.RATE = 1000000


def gen_graph(rng, version):
    n = rng.randint(2, 5)
    names = rng.sample(["A", "B", "C", "D", "E1", "x*2", "y*3", "7", "A*2"], n)
    lines = []
    lens = {}
    for s in names:
        L = rng.randint(8, 20)
        lens[s] = L
        tags = []
        for ct in COUNT_TAGS:
            if rng.random() < 0.5:
                tags.append("%s:i:%d" % (ct, rng.choice([0, 1, 7, 12, 100, 101, rng.randint(0, 1000)])))
        if rng.random() < 0.4:
            tags.append("xx:Z:keep")
        if rng.random() < 0.3:
            tags.append("jj:J:[1, {\"a\": 2}]")
        seq = G.rseq(rng, L) if rng.random() < 0.5 else "*"
        if version == "gfa1":
            lines.append("\t".join(["S", s, seq] + (["LN:i:%d" % L] if seq == "*" else []) + tags))
        else:
            lines.append("\t".join(["S", s, str(L), seq] + tags))
    seen = set()
    feats = set()
    for _ in range(rng.randint(1, 2 * n + 2)):
        a, b = rng.choice(names), rng.choice(names)
        oa, ob = rng.choice("+-"), rng.choice("+-")
        kind = "C" if rng.random() < 0.2 and a != b else "L"
        key = (kind, a, oa, b, ob)
        ckey = (kind, b, S.inv(ob), a, S.inv(oa))
        if key in seen or ckey in seen:
            # identical parallel edges are legal for containments and for unnamed GFA2 edges
            # (duplicate GFA1 links are refused by design)
            if (version == "gfa1" and kind == "L") or rng.random() < 0.5:
                continue
            feats.add("parallel-identical")
            dup = [x for x in lines if x.split("\t")[0] in ("C", "E") and
                   ((version == "gfa1" and x.split("\t")[1:5] == [a, oa, b, ob]) or
                    (version == "gfa2" and x.split("\t")[2:4] == [a + oa, b + ob] and x.split("\t")[1] == "*"))]
            if dup:
                d = dup[0]
                if rng.random() < 0.5 and "RC:i:" not in d and version == "gfa2":
                    # counts which become equal only after the division
                    lines.append(d + "\tRC:i:9")
                    lines[lines.index(d)] = d + "\tRC:i:8"
                else:
                    lines.append(d)
            continue
        seen.add(key)
        tags = []
        if rng.random() < 0.4:
            tags.append("%s:i:%d" % (rng.choice(["RC", "FC", "KC"] if kind == "L" or version == "gfa2" else ["NM"]), rng.choice([0, 3, 10, 11, 99])))
        if rng.random() < 0.2:
            tags.append("yy:Z:t")
        if a == b:
            feats.add("self-link")
        if version == "gfa1":
            if kind == "L":
                if rng.random() < 0.2:
                    tags.append("ID:Z:l%d" % len(seen))
                    feats.add("named-edge")
                lines.append("\t".join(["L", a, oa, b, ob, rng.choice(["*", "3M", "2M1D1M"])] + tags))
            else:
                lines.append("\t".join(["C", a, oa, b, ob, str(rng.randint(0, 3)), rng.choice(["*", "4M"])] + tags))
                feats.add("containment")
        else:
            la, lb = lens[a], lens[b]
            eid = "*"
            if rng.random() < 0.2:
                eid = "e%d" % len(seen)
                feats.add("named-edge")
            if kind == "L":
                i1 = (str(la - 3), "%d$" % la) if oa == "+" else ("0", "3")
                i2 = ("0", "3") if ob == "+" else (str(lb - 3), "%d$" % lb)
            else:
                i1 = ("2", "7")
                i2 = ("0", "%d$" % lb)
                feats.add("containment")
            lines.append("\t".join(["E", eid, a + oa, b + ob, i1[0], i1[1], i2[0], i2[1], rng.choice(["*", "3M"])] + tags))
    if rng.random() < 0.35:
        # an identifier which the automatic copy names would use is carried by a line which is
        # not a segment (the namespace is shared)
        s0 = rng.choice(names)
        nm = s0 + rng.choice(["*2", "*2", "*3"])
        if s0[-2:-1] == "*" and s0[-1].isdigit():
            nm = s0[:-1] + str(int(s0[-1]) + 1)
        if nm not in names:
            feats.add("copy-name-taken-by-nonsegment")
            if version == "gfa1":
                others = [x for x in names if x != s0]
                if rng.random() < 0.3 and others and not any(k[0] == "C" for k in seen):
                    # (the ID tag of a containment is in the same namespace)
                    o = rng.choice(others)
                    lines.append("C\t%s\t+\t%s\t+\t0\t*\tID:Z:%s" % (o, rng.choice(others), nm)
                                 if len(others) > 1 and rng.random() < 0.5 else
                                 "C\t%s\t+\t%s\t+\t0\t*\tID:Z:%s" % (s0, o, nm))
                    feats.add("containment")
                elif rng.random() < 0.5:
                    lines.append("P\t%s\t%s+\t*" % (nm, s0))
                else:
                    o = rng.choice(names)
                    k1 = ("L", s0, "+", o, "+")
                    if k1 in seen or ("L", o, "-", s0, "-") in seen:
                        lines.append("P\t%s\t%s+\t*" % (nm, o))
                    else:
                        lines.append("L\t%s\t+\t%s\t+\t*\tID:Z:%s" % (s0, o, nm))
                        seen.add(k1)
            else:
                k = rng.random()
                if k < 0.5:
                    lines.append(rng.choice(["U\t%s\t%s", "O\t%s\t%s+"]) % (nm, rng.choice(names)))
                else:
                    lines.append("G\t%s\t%s+\t%s-\t10\t*" % (nm, rng.choice(names), rng.choice(names)))
    if "copy-name-taken-by-nonsegment" not in feats and rng.random() < 0.15:
        # ... or is only referred to so far (a link to a segment which is not defined yet)
        s0 = rng.choice(names)
        nm = s0 + "*2"
        if s0[-2:-1] == "*" and s0[-1].isdigit():
            nm = s0[:-1] + str(int(s0[-1]) + 1)
        others = [x for x in names if x != s0]
        if nm not in names and others:
            o = rng.choice(others)
            feats.add("copy-name-only-referred-to")
            if version == "gfa1":
                lines.append("L\t%s\t+\t%s\t+\t*" % (o, nm))
            else:
                lines.append("E\t*\t%s+\t%s+\t%d\t%d$\t0\t3\t*" % (o, nm, lens[o] - 3, lens[o]))
    if version == "gfa1" and not (feats & {"copy-name-only-referred-to", "copy-name-taken-by-nonsegment"}) and \
            len(names) >= 2 and rng.random() < 0.1:
        # a path over a link which no L line defines (yet): the placeholder link of the path is not a
        # link of the graph, and the copies do not get a real one
        a, b = rng.sample(names, 2)
        if not any(k[0] == "L" and {k[1], k[3]} == {a, b} for k in seen):
            lines.append("P\tpopen\t%s+,%s+\t*" % (a, b))
            feats.add("path-over-undefined-link")
            names = [a] + [x for x in names if x != a]
    return lines, names, sorted(feats)


def cases(rng, tier, shard, nshards):
    while True:
        version = "gfa1" if rng.random() < 0.7 else "gfa2"
        lines, names, feats = gen_graph(rng, version)
        rng.shuffle(lines)
        if rng.random() < 0.1:
            # every segment carries a copy number: apply_copy_numbers() multiplies each by it
            out = []
            for l in lines:
                if l.startswith("S\t"):
                    l += "\tcn:i:%d" % rng.choice([1, 1, 2, 2, 3])
                out.append(l)
            yield {"k": "apply-cn", "version": version, "lines": out, "times": rng.choice([1, 2, 2]), "feats": feats}
            continue
        k = rng.choice([-1, 0, 1, 2, 2, 3, 3, 4])
        given = rng.random() < 0.3 and k >= 2
        prelude = []
        open_graph = "copy-name-only-referred-to" in feats or "path-over-undefined-link" in feats
        if open_graph:
            # (only the naming of the copies is in question on a graph under construction)
            k = rng.choice([2, 2, 3])
            given = False
        if rng.random() < 0.3 and not open_graph:
            for _ in range(rng.randint(1, 3)):
                o = rng.random()
                if o < 0.3:
                    prelude.append(["names"])
                elif o < 0.7:
                    prelude.append(["multiply", rng.choice(names), rng.choice([0, 2, 2, 3])])
                else:
                    prelude.append(["rename", rng.choice(names), rng.choice(names) + "*%d" % rng.randint(2, 3)])
        seg = rng.choice(names)
        if "path-over-undefined-link" in feats:
            seg = names[0]
        if open_graph:
            dangling = [l.split("\t")[4 if version == "gfa1" else 3].rstrip("+") for l in lines[-1:] if l[0] in "LE"]
            for l in lines:
                f = l.split("\t")
                nm = (f[3] if version == "gfa1" else f[3][:-1]) if f[0] in "LE" and len(f) > 3 else None
                if nm and nm not in names:
                    base = nm[:-2] if nm.endswith("*2") else nm[:-1] + str(int(nm[-1]) - 1) if nm[-1].isdigit() else nm
                    if base in names:
                        seg = base
        yield {"version": version, "lines": lines, "segment": seg, "factor": k, "prelude": prelude,
               # (a path over a link which the distribution takes away from the original has no
               #  defined fate: no distribution when the graph holds a path)
               "distribute": rng.choice([None, None, "off", "auto", "equal", "L", "R"]
                                        if "path-over-undefined-link" not in feats else [None, "off"]),
               "copy_names": ["cp%d" % i for i in range(k - 1)] if given else None, "feats": feats,
               "by": rng.choice(["name", "line"])}


def seg_name(rec):
    return rec.pos[0]


def edge_ends(rec, version):
    """(a, oa, b, ob) of an L/C/E record."""
    if version == "gfa1":
        return rec.pos[0], rec.pos[1], rec.pos[2], rec.pos[3]
    return rec.pos[1][:-1], rec.pos[1][-1], rec.pos[2][:-1], rec.pos[2][-1]


def edge_sig(rec, version, rename=None):
    """edge description independent of identifier and count tags; rename: (old, new)."""
    a, oa, b, ob = edge_ends(rec, version)
    if rename:
        old, new = rename
        a = new if a == old else a
        b = new if b == old else b
    rest = tuple(rec.pos[4:]) if version == "gfa1" else tuple(rec.pos[3:])
    tags = frozenset(S.canon_tag(*t) for t in rec.tags if t[0] not in COUNT_TAGS + ("ID",))
    return (rec.rt, a, oa, b, ob, rest, tags)


def end_of(rec, version, seg):
    """ends of `seg` this dovetail touches (list of 'L'/'R'); [] for containments."""
    from ..spec import edges as E
    if version == "gfa1":
        if rec.rt != "L":
            return []
        k1, k2 = E.link_keys(rec)
        out = []
        if rec.pos[0] == seg:
            out.append(k1[-1])
        if rec.pos[2] == seg:
            out.append(k2[-1])
        return out
    c = E.classify_edge(rec)
    if c["kind"] != "L":
        return []
    out = []
    if rec.pos[1][:-1] == seg:
        out.append(c[1][-1])
    if rec.pos[2][:-1] == seg:
        out.append(c[2][-1])
    return out


def counts_ok(before_tags, after_tags, k):
    b = {t[0]: int(t[2]) for t in before_tags if t[0] in COUNT_TAGS}
    a = {t[0]: int(t[2]) for t in after_tags if t[0] in COUNT_TAGS}
    if set(a) != set(b):
        return False
    for n, v in b.items():
        if not (v // k <= a[n] <= math.ceil(v / k)):
            return False
    return True


def run_apply_cn(case, ctx):
    """apply_copy_numbers() multiplies each segment by its copy number: it must do what the
    multiplications, called one by one in the same order, do (also when it is applied again to the
    graph it produced, whose copies carry copy numbers too)."""
    version, lines = case["version"], case["lines"]
    lvl = level_of(ctx, lines)
    r1 = call(ctx, "Gfa(list)", gfapy.Gfa, lines, version=version, vlevel=lvl)
    r2 = call(ctx, "Gfa(list)", gfapy.Gfa, lines, version=version, vlevel=lvl)
    if not (r1.ok and r2.ok):
        return
    g1, g2 = r1.value, r2.value

    def one_by_one(g):
        for s in sorted(g.segments, key=lambda s: s.try_get("cn")):
            g.multiply(s.name, s.get("cn"), distribute="auto", copy_names=None, conserve_components=True,
                       origin_tag="or", track_origin=True)
    for t in range(case["times"]):
        a = call(ctx, "apply_copy_numbers", g1.apply_copy_numbers)
        b = call(ctx, "multiply, one segment after the other", one_by_one, g2)
        ctx.count("apply_copy_numbers_calls")
        if a.ok != b.ok:
            ctx.violation("apply_copy_numbers-differs/%s-vs-%s/application-%d" % (a.cls() if not a.ok else "ok", b.cls() if not b.ok else "ok", t + 1),
                          "application %d on %r: apply_copy_numbers -> %s, the multiplications one by one -> %s"
                          % (t + 1, lines, str(a.exc)[:200] if not a.ok else "ok", str(b.exc)[:200] if not b.ok else "ok"))
            return
        if not a.ok:
            return
        t1 = sorted(repr(x) for x in S.canon_doc([O.safe_str(l) for l in g1.lines], version))
        t2 = sorted(repr(x) for x in S.canon_doc([O.safe_str(l) for l in g2.lines], version))
        if t1 != t2:
            ma = [x for x in t1 if x not in t2]
            mb = [x for x in t2 if x not in t1]
            ctx.violation("apply_copy_numbers-differs/text/application-%d" % (t + 1),
                          "application %d on %r: only with apply_copy_numbers %r; only one by one %r" % (t + 1, lines, ma[:3], mb[:3]))
            return
        nseg = len(g1.segments)
    for key, detail in invariants.closed_symmetric(g1):
        if key.endswith("owner/H"):
            continue
        ctx.violation("after-apply_copy_numbers/closed-symmetric/" + key, detail)
        return
    ctx.nontriv(lines)
    ctx.sample({"k": "apply-cn", "lines": lines, "segments_after": nseg})


def run(case, ctx):
    if case.get("k") == "apply-cn":
        return run_apply_cn(case, ctx)
    version, lines, sname, k = case["version"], case["lines"], case["segment"], case["factor"]
    if "copy-name-only-referred-to" in case["feats"] or "path-over-undefined-link" in case["feats"]:
        # a graph under construction (one line refers to a segment which is not defined yet): built
        # line by line
        def build():
            g_ = gfapy.Gfa(version=version, vlevel=level_of(ctx, lines))
            for l_ in lines:
                g_.add_line(l_)
            return g_
        r = call(ctx, "Gfa(); add_line ...", build)
        ctx.count("graphs_under_construction")
    else:
        r = call(ctx, "Gfa(list)", gfapy.Gfa, lines, version=version, vlevel=level_of(ctx, lines))
    if not r.ok:
        ctx.violation("valid-document-refused/%s" % r.cls(), "%r: %s" % (lines, str(r.exc)[:200]), prop="C01")
        return
    g = r.value
    for op in case.get("prelude") or []:
        # earlier operations on the same Gfa (their own effect is judged when they are the last one):
        # what they leave behind must not change the judged multiplication
        try:
            if op[0] == "names":
                list(g.names)
            elif op[0] == "multiply" and g.segment(op[1]) is not None:
                g.multiply(op[1], op[2])
            elif op[0] == "rename" and g.segment(op[1]) is not None and g.line(op[2]) is None:
                g.segment(op[1]).name = op[2]
        except gfapy.Error:
            return
        ctx.count("prelude_operations")
    if g.segment(sname) is None:
        return
    before = [O.safe_str(l) for l in g.lines]
    lines = before
    brecs = [S.parse_line(l, version) for l in before]
    kw = {}
    if case["distribute"] is not None:
        kw["distribute"] = case["distribute"]
    if case["copy_names"] is not None:
        kw["copy_names"] = list(case["copy_names"])
    target = sname if case["by"] == "name" else g.segment(sname)
    m = call(ctx, "multiply", g.multiply, target, k, **kw)
    ctx.count("multiplications")
    ctx.add("configs", "k=%s/%s/%s" % (k, case["distribute"], "given" if case["copy_names"] else "auto"))
    cfg = "multiply(%r, %d, %r) on %r" % (sname, k, kw, lines)
    selfl = any(edge_ends(x, version)[0] == edge_ends(x, version)[2] == sname for x in brecs if x.rt in ("L", "C", "E"))
    if k < 0:
        if m.ok:
            ctx.violation("negative-factor-accepted", cfg)
        elif [O.safe_str(l) for l in g.lines] != before:
            ctx.violation("refused-multiplication-changed-graph", cfg, prop="C08")
        return
    if not m.ok:
        ctx.violation("multiply-raises/%s/%s" % (m.cls(), "+".join(case["feats"]) or "plain"), "%s: %s" % (cfg, str(m.exc)[:300]))
        return
    for key, detail in invariants.closed_symmetric(g):
        ctx.violation("after-multiply/closed-symmetric/" + key, "%s\n %s" % (detail, cfg))
        return
    ctx.count("invariant_evaluations")
    after = [O.safe_str(l) for l in g.lines]
    arecs = [S.parse_line(l, version) for l in after]
    if k == 1:
        if sorted(after) != sorted(before):
            ctx.violation("factor-1-changes-graph", cfg)
        return
    if k == 0:
        mdl = T.Model(version, before)
        mdl.remove(mdl.by_name(sname))
        if S.canon_doc(mdl.text_lines(), version) != S.canon_doc(after, version):
            ctx.violation("factor-0-not-a-removal", "%s\n after %r\n model %r" % (cfg, after, mdl.text_lines()))
        return
    # ---- k >= 2
    bseg = {seg_name(x): x for x in brecs if x.rt == "S"}
    aseg = {seg_name(x): x for x in arecs if x.rt == "S"}
    new = sorted(set(aseg) - set(bseg))
    if len(new) != k - 1 or sname not in aseg or set(bseg) - set(aseg):
        ctx.violation("wrong-number-of-copies", "%s: new segments %r" % (cfg, new))
        return
    if case["copy_names"] is not None and sorted(case["copy_names"]) != new:
        ctx.violation("requested-copy-names-ignored", "%s: new segments %r" % (cfg, new))
        return
    family = [sname] + new
    orig = bseg[sname]
    for x in family:
        rec = aseg[x]
        if rec.pos[1:] != orig.pos[1:]:
            ctx.violation("copy-fields-differ", "%s: %r vs original %r" % (cfg, rec.text(), orig.text()))
            return
        ot = frozenset(S.canon_tag(*t) for t in orig.tags if t[0] not in COUNT_TAGS)
        ct = frozenset(S.canon_tag(*t) for t in rec.tags if t[0] not in COUNT_TAGS)
        if ot != ct:
            ctx.violation("copy-tags-differ", "%s: %r vs original %r" % (cfg, rec.text(), orig.text()))
            return
        if not counts_ok(orig.tags, rec.tags, k):
            ctx.violation("segment-counts-not-divided", "%s: %r vs original %r" % (cfg, rec.text(), orig.text()))
            return
    # rest of the graph untouched
    def touches(rec, names):
        if rec.rt not in ("L", "C", "E"):
            return False
        a, _, b, _ = edge_ends(rec, version)
        return a in names or b in names
    rest_b = sorted(x.text() for x in brecs if not (x.rt == "S" and seg_name(x) == sname) and not touches(x, [sname]))
    rest_a = sorted(x.text() for x in arecs if not (x.rt == "S" and seg_name(x) in family) and not touches(x, family))
    if rest_b != rest_a:
        ctx.violation("rest-of-graph-changed", "%s\n before %r\n after %r" % (cfg, rest_b, rest_a))
        return
    if selfl:
        ctx.count("self_link_cases_partially_checked")
        return
    # edges of the original and their copies
    bedges = [x for x in brecs if touches(x, [sname])]
    dist = case["distribute"]
    full_ok = {"L": True, "R": True, "C": True}
    dist_ok = {"L": True, "R": True}
    problems = []
    for x in family:
        aedges = [e for e in arecs if touches(e, [x])]
        asigs = [edge_sig(e, version) for e in aedges]
        wsigs = [edge_sig(e, version, (sname, x)) for e in bedges]
        # no invented edge (multiset: identical parallel edges count)
        from collections import Counter
        ca, cw = Counter(asigs), Counter(wsigs)
        for e, sg in zip(aedges, asigs):
            if ca[sg] > cw[sg]:
                problems.append(("invented-edge", "%r on %s (x%d, expected x%d)" % (e.text(), x, ca[sg], cw[sg])))
        # counts divided (edges with one signature are matched in the order of their counts)
        def cnt(rec):
            return tuple(sorted((t[0], int(t[2])) for t in rec.tags if t[0] in COUNT_TAGS))
        for sg in set(asigs):
            bs = sorted((be for be in bedges if edge_sig(be, version, (sname, x)) == sg), key=cnt)
            as_ = sorted((e for e in aedges if edge_sig(e, version) == sg), key=cnt)
            if len(bs) == len(as_):
                for be, e in zip(bs, as_):
                    if not counts_ok(be.tags, e.tags, k):
                        problems.append(("edge-counts-not-divided", "%r from %r" % (e.text(), be.text())))
        # completeness per class
        for be, sg in zip(bedges, wsigs):
            ends = end_of(be, version, sname)
            present = ca[sg] >= cw[sg]
            if not ends:
                if not present:
                    full_ok["C"] = False
                    problems.append(("containment-not-copied", "%r missing on %s" % (be.text(), x)))
            else:
                for e_ in ends:
                    if not present:
                        full_ok[e_] = False
    if [p for p in problems if p[0] != "x"]:
        key, detail = problems[0]
        ctx.violation("%s/%s" % (key, "+".join(case["feats"]) or "plain"), "%s\n %s\n after %r" % (cfg, detail, after))
        return
    # distribution semantics: every former neighbour end stays linked to at least one copy
    for be in bedges:
        ends = end_of(be, version, sname)
        if not ends:
            continue
        covered = False
        for x in family:
            sg = edge_sig(be, version, (sname, x))
            if any(edge_sig(e, version) == sg for e in arecs if touches(e, [x])):
                covered = True
        if not covered:
            for e_ in ends:
                dist_ok[e_] = False
    allowed_dist = {None: set(), "off": set(), "L": {"L"}, "R": {"R"}, "auto": {"L", "R"}, "equal": {"L", "R"}}[dist]
    for e_ in ("L", "R"):
        if not dist_ok[e_]:
            ctx.violation("neighbour-left-unlinked/%s/%s" % (dist, e_), "%s\n after %r" % (cfg, after))
            return
        if not full_ok[e_] and e_ not in allowed_dist:
            ctx.violation("links-not-copied/%s/end-%s/%s" % (dist, e_, "+".join(case["feats"]) or "plain"),
                          "%s\n after %r" % (cfg, after))
            return
    if dist in ("auto", "equal") and not full_ok["L"] and not full_ok["R"]:
        ctx.violation("both-ends-distributed/%s" % dist, "%s\n after %r" % (cfg, after))
        return
    dov = {"L": 0, "R": 0}
    for be in bedges:
        for e_ in end_of(be, version, sname):
            dov[e_] += 1
    if max(dov.values()) >= 2 or any(be.rt == "C" for be in bedges) or \
            (version == "gfa2" and any(not end_of(be, version, sname) for be in bedges)):
        ctx.nontriv([lines, sname, k, dist, case["copy_names"]])
    ctx.sample({"version": version, "lines": lines, "segment": sname, "factor": k, "distribute": dist,
                "copy_names": case["copy_names"]})
