"""C13 — the GFA version is inferred from content and enforced consistently."""
import itertools
import os
import shutil
import tempfile
import gfapy
from ..spec import document as D
from ..mon import hooks
from ..mon.client import call

ID = "C13"
NMAX_ALL = {"quick": 5, "thorough": 6}
_tmp = None

GFA1_LINES = ["S\tC\tACGT\tx1:i:2", "S\tD\t*\ts2:Z:ab\tLN:i:7", "S\tA\t*", "S\tB\tACGT", "L\tA\t+\tB\t-\t*", "C\tA\t+\tB\t+\t0\t*", "P\tp\tA+,B-\t*", "H\tVN:Z:1.0",
              "L\tB\t+\tA\t+\t2M", "P\tq\tB+\t*",
              # segments carrying a tag of each datatype (the version of an S line is told from its fields)
              "S\tE\t*\tjj:J:[1, 2]", "S\tF\tACGT\tjo:J:{\"a\": 1}\thh:H:1A", "S\tG\t*\tbb:B:C,1,2\tff:f:1.5\taa:A:x"]
GFA2_LINES = ["S\tC\t4\tACGT\tx1:i:2", "S\tD\t7\t*\ts2:Z:ab\tk9:A:q", "S\tA\t10\t*", "S\tB\t4\tACGT", "E\te\tA+\tB-\t0\t1\t0\t1\t*", "G\tg\tA+\tB+\t5\t*",
              "F\tA\tr+\t0\t1\t0\t1\t*", "O\to\tA+ B-", "U\tu\tA B", "H\tVN:Z:2.0", "X\tcustom\tfield",
              "E\t*\tB+\tA+\t0\t4$\t0\t10$\t*",
              "S\tE\t5\t*\tjj:J:[1, 2]", "S\tF\t4\tACGT\tjo:J:{\"a\": 1}\thh:H:1A", "S\tG\t9\t*\tbb:B:C,1,2\tff:f:1.5\taa:A:x"]
NEUTRAL_LINES = ["H\taa:i:1", "H\tbb:Z:x", "# comment one", "#comment two", "H\tcc:f:1.5"]


def setup(ctx):
    global _tmp
    _tmp = tempfile.mkdtemp(prefix="verif-c13-")
    hooks.RATE = 11


def finish(ctx):
    if _tmp:
        shutil.rmtree(_tmp, ignore_errors=True)


BAD_VN = ["H\tVN:Z:1.1", "H\tVN:Z:1.2", "H\tVN:Z:2.1", "H\tVN:Z:1", "H\tVN:Z:2", "H\tVN:Z:3.0", "H\tVN:Z:0.9",
          "H\tVN:Z:1.00", "H\tVN:Z:gfa1", "H\tVN:Z:2.0.1", "H\tVN:Z:1.0 ", "H\tVN:Z:v1.0"]


def gen_doc(rng, nmax):
    kind = rng.choice(["gfa1", "gfa2", "neutral", "mixed", "mixed", "gfa1", "gfa2", "badvn"])
    n = rng.randint(2, nmax)
    if kind == "badvn":
        # a VN header naming a version which does not exist, among lines of one version
        base = rng.choice([["S\tA\t*", "S\tB\tACGT", "L\tA\t+\tB\t-\t*"], ["S\tA\t10\t*", "S\tB\t4\tACGT",
                           "E\te\tA+\tB-\t0\t1\t0\t1\t*"], []])
        lines = rng.sample(base, rng.randint(0, len(base))) + rng.sample(NEUTRAL_LINES, rng.randint(0, 2))
        lines = lines[:max(1, n - 1)] + [rng.choice(BAD_VN)]
        return kind, lines
    if kind == "gfa1":
        pool = GFA1_LINES + NEUTRAL_LINES
    elif kind == "gfa2":
        pool = GFA2_LINES + NEUTRAL_LINES
    elif kind == "neutral":
        pool = NEUTRAL_LINES
    else:
        pool = None
    if pool is not None:
        lines = rng.sample(pool, min(n, len(pool)))
    else:
        a = rng.sample(GFA1_LINES, rng.randint(1, max(1, n - 1)))
        b = rng.sample(GFA2_LINES, max(1, n - len(a)))
        lines = a + b + rng.sample(NEUTRAL_LINES, rng.choice([0, 1]))
        lines = lines[:nmax]
    # closed under references: add the segments a referencing line names
    segs = {"gfa1": ["S\tA\t*", "S\tB\tACGT"], "gfa2": ["S\tA\t10\t*", "S\tB\t4\tACGT"]}
    v1 = any(l in GFA1_LINES and l.split("\t")[0] in "LCP" for l in lines)
    v2 = any(l in GFA2_LINES and l.split("\t")[0] in "EGFOU" for l in lines)
    if kind != "mixed":
        if v1:
            for s in segs["gfa1"]:
                if s not in lines:
                    lines.append(s)
            if any(l.startswith("P\tp") for l in lines) and "L\tA\t+\tB\t-\t*" not in lines:
                lines.append("L\tA\t+\tB\t-\t*")
        if v2:
            for s in segs["gfa2"]:
                if s not in lines:
                    lines.append(s)
    return kind, lines


# lines which carry a version hint and must be refused (for the reason in the comment)
REFUSED_HINTS = {
    "gfa1": ["H\tVN:Z:1.0\tTS:i:200",          # TS given before with another value
             "S\tA\t*\tLN:Z:x",                # predefined tag with the wrong datatype
             "S\tA\tAC GT",                     # malformed sequence
             "H\tVN:Z:1.0\tVN:Z:1.0"],          # duplicate tag
    "gfa2": ["H\tVN:Z:2.0\tTS:i:300",
             "S\tA\t10\t*\txx:i:a",
             "E\t*\tA+\tB-\t5\t1\t0\t1\t*",        # begin after end
             "H\tVN:Z:2.0\tVN:Z:2.0"],
}


OTHER_VERSION_LINES = {
    # Gfa version -> (line of the other version, version to build the Line with)
    "gfa2": [("L\tA\t+\tB\t+\t*", "gfa1"), ("C\tA\t+\tB\t+\t0\t*", "gfa1"), ("P\tp\tA+,B+\t*", "gfa1"), ("S\tC\t*", None),
             ("S\tC\tACGT\tLN:i:4", None)],
    "gfa1": [("E\te\tA+\tB+\t0\t1\t0\t1\t*", "gfa2"), ("G\tg\tA+\tB+\t1\t*", "gfa2"), ("O\to\tA+ B+", "gfa2"),
             ("U\tu\tA B", "gfa2"), ("F\tA\tr+\t0\t1\t0\t1\t*", "gfa2"), ("X\tcustom\tfield", "gfa2"), ("S\tC\t10\t*", None)],
}


def cases(rng, tier, shard, nshards):
    nmax = NMAX_ALL[tier]
    while True:
        if rng.random() < 0.05:
            # the VN tag assigned through the header object of the Gfa
            v = rng.choice(["gfa1", "gfa2"])
            how = rng.choice(["explicit", "content", "queued-only", "empty"])
            base = {"gfa1": ["S\tA\t*", "S\tB\tACGT"], "gfa2": ["S\tA\t10\t*", "S\tB\t4\tACGT"]}[v]
            if how == "queued-only":
                base = ["# c1", "H\taa:i:1"] + (["L\tA\t+\tB\t-\t*"] if v == "gfa1" else ["X\tcustom\tfield"])
            elif how == "empty":
                base = []
            yield {"mode": "header-vn-api", "gfa_version": v, "how": how, "base": base,
                   "value": rng.choice(["1.0", "2.0", "1.0", "2.0", "3.0", "gfa1", "1.1"]),
                   "way": rng.choice(["attr", "set", "add"]), "vlevel": rng.choice([1, 1, 2, 3]), "kind": "header-api",
                   "version": None, "dialect": "standard", "entry": "api", "lines": base}
            continue
        if rng.random() < 0.04:
            # a Gfa whose version is not known yet gets a version-specific line object through
            # connect(): the version follows, content of the other version is refused afterwards
            v = rng.choice(["gfa1", "gfa2"])
            decider = {"gfa1": [("S\tA\t*", None)],
                       "gfa2": [("S\tA\t10\t*", None), ("E\te\tA+\tB+\t0\t1\t0\t1\t*", "gfa2"), ("G\tg\tA+\tB+\t1\t*", "gfa2"),
                                ("O\to\tA+ B+", "gfa2"), ("U\tu\tA B", "gfa2"), ("F\tA\tr+\t0\t1\t0\t1\t*", "gfa2")]}[v]
            line, lv = rng.choice(decider)
            yield {"mode": "connect-decides", "gfa_version": v, "base": rng.sample(NEUTRAL_LINES, rng.randint(0, 2)),
                   "line": line, "lv": lv, "way": rng.choice(["connect", "connect", "add_line"]), "vlevel": rng.choice([1, 1, 2, 3]),
                   "kind": "object", "version": None, "dialect": "standard", "entry": "api", "lines": [line]}
            continue
        if rng.random() < 0.08:
            # a line object of the other version handed to a Gfa whose version is known, through
            # add_line(Line) or the documented equivalent Line.connect(gfa)
            v = rng.choice(["gfa1", "gfa2"])
            base = {"gfa1": ["S\tA\t*", "S\tB\tACGT"], "gfa2": ["S\tA\t10\t*", "S\tB\t4\tACGT"]}[v]
            how = rng.choice(["explicit", "content", "header"])
            if how == "header":
                base = ["H\tVN:Z:%s" % {"gfa1": "1.0", "gfa2": "2.0"}[v]] + base[:rng.randint(0, 2)]
            line, lv = rng.choice(OTHER_VERSION_LINES[v])
            yield {"mode": "object-of-other-version", "gfa_version": v, "how": how, "base": base, "line": line, "lv": lv,
                   "way": rng.choice(["connect", "add_line"]), "vlevel": rng.choice([1, 1, 2, 3, 0]), "kind": "object",
                   "version": None, "dialect": "standard", "entry": "api", "lines": base + [line]}
            continue
        if rng.random() < 0.2:
            # line-by-line API: refused lines which hint at a version, among neutral lines; then
            # content of either version.  The version must follow from the ACCEPTED lines alone.
            hint = rng.choice(["gfa1", "gfa2"])
            seq = ["H\tTS:i:100"] + rng.sample(NEUTRAL_LINES, rng.randint(0, 2))
            rng.shuffle(seq)
            seq += rng.sample(REFUSED_HINTS[hint], rng.randint(1, 2))
            if rng.random() < 0.5:
                seq.insert(rng.randint(1, len(seq)), rng.choice(NEUTRAL_LINES))
            final = rng.choice(["gfa1", "gfa2"])
            seq += {"gfa1": ["S\tZ\tACGT"], "gfa2": ["S\tZ\t4\tACGT"]}[final]
            yield {"mode": "incremental", "lines": list(dict.fromkeys(seq)), "hint": hint, "final": final,
                   "vlevel": rng.choice([1, 1, 2, 3, 0]), "kind": "incremental", "version": None,
                   "dialect": "standard", "entry": "add_line"}
            continue
        kind, lines = gen_doc(rng, nmax)
        cfg = {"version": rng.choice([None, None, "gfa1", "gfa2"]),
               "dialect": rng.choice(["standard", "standard", "standard", "rgfa", None]),
               "vlevel": rng.choice([1, 1, 2, 3, 0]), "entry": rng.choice(["list", "str", "file"])}
        if len(lines) <= nmax + 1:
            yield dict(cfg, kind=kind, lines=lines, mode="all")
        else:
            yield dict(cfg, kind=kind, lines=lines, mode="random", seed=rng.getrandbits(32),
                       n=60 if tier == "quick" else 300)


def perms(case):
    n = len(case["lines"])
    if case["mode"] == "all":
        return itertools.permutations(range(n))
    import random
    r = random.Random(case["seed"])
    out = []
    for _ in range(case["n"]):
        p = list(range(n))
        r.shuffle(p)
        out.append(tuple(p))
    return out


def build(ctx, case, order):
    kw = {"vlevel": case["vlevel"], "dialect": case["dialect"]}
    if case["version"]:
        kw["version"] = case["version"]
    e = case["entry"]
    if e == "list":
        return call(ctx, "Gfa(list)", gfapy.Gfa, list(order), **kw)
    if e == "str":
        return call(ctx, "Gfa(str)", gfapy.Gfa, "\n".join(order), **kw)
    fn = os.path.join(_tmp, "in.gfa")
    with open(fn, "w") as f:
        f.write("\n".join(order) + "\n")
    return call(ctx, "Gfa.from_file", gfapy.Gfa.from_file, fn, **kw)


def run_incremental(case, ctx):
    g = gfapy.Gfa(vlevel=case["vlevel"])
    accepted = []
    for l in case["lines"]:
        r = call(ctx, "add_line(str)", g.add_line, l)
        ctx.count("incremental_calls")
        if r.ok:
            accepted.append(l)
        else:
            ctx.count("incremental_refusals")
        classes = {D.line_version_class(x) for x in accepted} - {"neutral"}
        want = None if not classes else (classes.pop() if len(classes) == 1 else "?")
        if want == "?":
            return
        vr = call(ctx, "version", lambda: g.version)
        if not vr.ok or vr.value != want:
            ctx.violation("version-not-from-accepted-content/%s-instead-of-%s/%s"
                          % (vr.value if vr.ok else vr.cls(), want, "after-refusal" if not r.ok else "after-addition"),
                          "after add_line(%r) (%s) the accepted lines are %r: version %r expected, Gfa.version=%r; calls %r"
                          % (l, "accepted" if r.ok else "refused: " + r.cls(), accepted, want,
                             vr.value if vr.ok else vr.cls(), case["lines"]))
            return
        if not r.ok and l == case["lines"][-1] and \
                ({D.line_version_class(x) for x in accepted} - {"neutral"}) <= {case["final"]}:
            ctx.violation("single-version-refused/%s/%s/incremental" % (case["final"], r.cls()),
                          "the only version-specific line accepted so far would be %r, refused with %s after %r"
                          % (l, r.cls(), case["lines"][:-1]))
            return
    ctx.add("kinds", "incremental/%s-hint/%s" % (case["hint"], case["final"]))
    ctx.nontriv([case["lines"], case["vlevel"]])
    ctx.sample({"lines": case["lines"], "config": "add_line, vlevel=%d" % case["vlevel"]})


def run_object(case, ctx):
    from ..mon import obs as O
    kw = {"vlevel": case["vlevel"]}
    if case["how"] == "explicit":
        kw["version"] = case["gfa_version"]
    r = call(ctx, "Gfa(list)", gfapy.Gfa, list(case["base"]), **kw)
    if not r.ok or r.value.version != case["gfa_version"]:
        return
    g = r.value
    lr = call(ctx, "Line(str)", gfapy.Line, case["line"], vlevel=case["vlevel"], **({"version": case["lv"]} if case["lv"] else {}))
    if not lr.ok:
        return
    line = lr.value
    before = O.obs(g)
    rr = call(ctx, case["way"], (lambda: line.connect(g)) if case["way"] == "connect" else (lambda: g.add_line(line)))
    ctx.count("objects_of_other_version_offered")
    ctx.add("kinds", "object/%s/%s" % (case["way"], case["line"].split("\t")[0]))
    ctx.nontriv([case["base"], case["line"], case["way"], case["vlevel"]])
    rt = case["line"].split("\t")[0]
    if rr.ok:
        ctx.violation("mixed-accepted/object/%s/%s" % (case["way"], rt),
                      "a %s Gfa (%s, level %d) accepted the %s line object %r through %s"
                      % (case["gfa_version"], case["how"], case["vlevel"], case["lv"] or "other-version S", case["line"], case["way"]))
        return
    if rr.cls() != "VersionError" and rr.kind == "gfapy":
        ctx.violation("conflict-wrong-class/%s/object/%s" % (rr.cls(), case["way"]),
                      "%r offered to a %s Gfa through %s: %s instead of VersionError" % (case["line"], case["gfa_version"], case["way"], rr.cls()))
        return
    if O.obs(g) != before:
        ctx.violation("state-changed-by-refused-object/%s" % case["way"], repr(case), prop="C08")
    ctx.sample({"lines": case["lines"], "config": "%s, level %d, %s" % (case["way"], case["vlevel"], case["how"])})


def run_header_vn(case, ctx):
    from ..mon import obs as O
    kw = {"vlevel": case["vlevel"]}
    if case["how"] == "explicit":
        kw["version"] = case["gfa_version"]
    g = gfapy.Gfa(**kw)
    for l in case["base"]:
        if not call(ctx, "add_line(str)", g.add_line, l).ok:
            return
    known = g.version
    if known is None and case["how"] == "queued-only":
        known = case["gfa_version"]     # (a queued line is of that version: the header must agree with it)
    value, way = case["value"], case["way"]
    before = O.obs(g)

    def assign():
        if way == "attr":
            g.header.VN = value
        elif way == "set":
            g.header.set("VN", value)
        else:
            g.header.add("VN", value)
    rr = call(ctx, "header VN through the API (%s)" % way, assign)
    ctx.count("header_vn_assignments")
    ctx.add("kinds", "header-api/%s/%s/%s" % (case["how"], way, value))
    ctx.nontriv([case["base"], value, way, case["vlevel"], case["how"]])
    named = {"1.0": "gfa1", "2.0": "gfa2"}.get(value)
    cfg = "%s Gfa (%s, level %d), header VN = %r through %s" % (known, case["how"], case["vlevel"], value, way)
    if named is None or (known is not None and named != known):
        if rr.ok:
            ctx.violation("%s/header-api/%s" % ("unsupported-version-accepted" if named is None else "mixed-accepted", way),
                          "%s: accepted; the Gfa now writes %r" % (cfg, str(g)))
            return
        if named is not None and rr.cls() != "VersionError" and rr.kind == "gfapy":
            ctx.violation("conflict-wrong-class/%s/header-api/%s" % (rr.cls(), way), cfg)
            return
        gv = call(ctx, "gfa.version", lambda: g.version)
        if named is not None and gv.ok and gv.value == named:
            # the version of a Gfa follows from the content it has accepted, never from a value it refused
            ctx.violation("version-from-refused-content/header-api/%s" % way,
                          "%s: refused with %s, yet Gfa.version is now %r" % (cfg, rr.cls(), gv.value))
            return
        if O.obs(g) != before:
            ctx.violation("state-changed-by-refused-header-version/%s" % way, cfg, prop="C08")
        return
    if not rr.ok:
        ctx.violation("single-version-refused/%s/%s/header-api" % (named, rr.cls()), "%s: %s" % (cfg, str(rr.exc)[:200]))
        return
    # the version is now given by the header: content of the other version is refused
    other = {"gfa1": "S\tZ\t4\tACGT", "gfa2": "S\tZ\tACGT"}[named]
    r2 = call(ctx, "add_line(str)", g.add_line, other)
    if r2.ok:
        ctx.violation("mixed-accepted/after-header-api/%s" % way, "%s; then %r was accepted: %r" % (cfg, other, str(g)))
    elif r2.cls() != "VersionError" and r2.kind == "gfapy":
        ctx.violation("conflict-wrong-class/%s/after-header-api" % r2.cls(), "%s; then %r" % (cfg, other))


def run_connect_decides(case, ctx):
    g = gfapy.Gfa(vlevel=case["vlevel"])
    for l in case["base"]:
        if not call(ctx, "add_line(str)", g.add_line, l).ok:
            return
    lr = call(ctx, "Line(str)", gfapy.Line, case["line"], vlevel=case["vlevel"], **({"version": case["lv"]} if case["lv"] else {}))
    if not lr.ok:
        return
    line = lr.value
    rr = call(ctx, case["way"], (lambda: line.connect(g)) if case["way"] == "connect" else (lambda: g.add_line(line)))
    ctx.count("deciding_objects_offered")
    ctx.nontriv([case["base"], case["line"], case["way"], case["vlevel"]])
    v = case["gfa_version"]
    cfg = "Gfa of unknown version (level %d), %r given as Line object through %s" % (case["vlevel"], case["line"], case["way"])
    if not rr.ok:
        ctx.violation("single-version-refused/%s/%s/object-%s" % (v, rr.cls(), case["way"]), "%s: %s" % (cfg, str(rr.exc)[:200]))
        return
    if g.version != v:
        ctx.violation("version-not-from-accepted-content/%s-instead-of-%s/object-%s" % (g.version, v, case["way"]),
                      "%s: Gfa.version = %r" % (cfg, g.version))
        return
    other = {"gfa1": "S\tZ\t4\tACGT", "gfa2": "S\tZ\tACGT"}[v]
    r2 = call(ctx, "add_line(str)", g.add_line, other)
    if r2.ok:
        ctx.violation("mixed-accepted/after-object-%s" % case["way"], "%s; then %r was accepted" % (cfg, other))
    elif r2.cls() != "VersionError" and r2.kind == "gfapy":
        ctx.violation("conflict-wrong-class/%s/after-object-%s" % (r2.cls(), case["way"]), "%s; then %r" % (cfg, other))


def run(case, ctx):
    if case.get("mode") == "incremental":
        return run_incremental(case, ctx)
    if case.get("mode") == "connect-decides":
        return run_connect_decides(case, ctx)
    if case.get("mode") == "header-vn-api":
        return run_header_vn(case, ctx)
    if case.get("mode") == "object-of-other-version":
        return run_object(case, ctx)
    lines = case["lines"]
    expl = case["version"]
    v, why = D.infer_version(lines, expl)
    doc_verdict = D.recognise_doc(lines, expl, case["dialect"] or "standard")
    if case["dialect"] == "rgfa":
        # the dialect requires gfa1: a document that is (or is declared) gfa2 contradicts it
        if v == "gfa2" or expl == "gfa2":
            why = "conflict"
    outcomes = {}
    first = None
    nperm = 0
    queued_before_decider = False
    for p in perms(case):
        order = [lines[i] for i in p]
        nperm += 1
        r = build(ctx, case, order)
        ctx.count("orders")
        if order and D.line_version_class(order[0]) == "neutral" or order[0].split("\t")[0] in "LCP":
            queued_before_decider = True
        if r.ok:
            g = r.value
            out = ("ok", g.version)
            # every input line exactly once (headers are split per tag: compare records)
            if case["vlevel"] >= 0:
                texts = [str(l) for l in g.lines if not l.virtual]
                for l in order:
                    if l.startswith("H"):
                        continue
                    c = texts.count(l)
                    if c != 1:
                        ctx.violation("line-count/%d/%s" % (min(c, 2), l.split("\t")[0][:1]),
                                      "order %r (%s): line %r appears %d times in Gfa.lines"
                                      % (order, _cfg(case), l, c))
                        return
        else:
            out = ("raise", r.cls())
        outcomes.setdefault(out, order)
        if first is None:
            first = out
        if case["vlevel"] == 0:
            continue
        if why == "conflict":
            if out[0] == "ok":
                ctx.violation("mixed-accepted/%s/%s" % (case["kind"], _cfg_short(case)),
                              "order %r (%s) mixes versions / contradicts the declared version but was accepted as %s"
                              % (order, _cfg(case), out[1]))
                return
            if out[1] != "VersionError" and doc_verdict[1] in ("version conflict", "rgfa requires gfa1"):
                ctx.violation("conflict-wrong-class/%s/%s" % (out[1], _cfg_short(case)),
                              "order %r (%s) refused with %s instead of VersionError" % (order, _cfg(case), out[1]))
                return
        elif why == "bad" and case["kind"] == "badvn":
            ctx.count("unsupported_vn_documents_orders")
            if out[0] == "ok":
                ctx.violation("unsupported-version-accepted/%s" % _cfg_short(case),
                              "order %r (%s): a VN header names a version which does not exist, accepted as %s"
                              % (order, _cfg(case), out[1]))
                return
        elif why == "ok" and doc_verdict[0] == "VALID":
            if out[0] != "ok":
                ctx.violation("single-version-refused/%s/%s/%s" % (v, out[1], _cfg_short(case)),
                              "order %r (%s) is a valid %s document but raised %s: %s"
                              % (order, _cfg(case), v, out[1], str(r.exc)[:200]))
                return
            if out[1] != v:
                ctx.violation("wrong-version/%s-as-%s/%s" % (v, out[1], _cfg_short(case)),
                              "order %r (%s): expected %s, Gfa.version=%s" % (order, _cfg(case), v, out[1]))
                return
    if case["vlevel"] >= 1 and len(outcomes) > 1:
        ks = sorted(outcomes, key=repr)
        ctx.violation("order-dependent-version/%s-vs-%s/%s" % (_o(ks[0]), _o(ks[1]), _cfg_short(case)),
                      "%s: order %r gives %r but order %r gives %r"
                      % (_cfg(case), outcomes[ks[0]], ks[0], outcomes[ks[1]], ks[1]))
    ctx.add("kinds", "%s/%s/%s" % (case["kind"], why, case["dialect"]))
    if queued_before_decider and nperm > 1:
        ctx.nontriv([lines, _cfg(case)])
    if case["mode"] == "all":
        ctx.count("documents_all_orders")
    ctx.sample({"lines": lines, "config": _cfg(case), "orders_executed": nperm, "expected": [v, why]})


def _o(k):
    return "%s:%s" % k


def _cfg(case):
    return "version=%s dialect=%s vlevel=%d entry=%s" % (case["version"], case["dialect"], case["vlevel"], case["entry"])


def _cfg_short(case):
    return "%s/%s/%s" % (case["version"] or "auto", case["dialect"], case["entry"])
