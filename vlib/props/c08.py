"""C08 — a failed mutation leaves the Gfa unchanged (M6 failure-atomicity guard)."""
from . import history as H
from ..mon import hooks

ID = "C08"


def setup(ctx):
    hooks.RATE = 3
    H.PROBE_RATE = 0.3


QUEUED = ["H\tTS:i:100", "# c1", "L\tA\t+\tB\t-\t*", "P\tp\tA+,B-\t*", "C\tA\t+\tB\t+\t0\t*", "X\tcustom\trecord", "H\taa:i:1",
          "#c2", "H\tbb:Z:x"]
BAD_DECIDERS = ["H\tVN:Z:1.0\tTS:i:200", "H\tVN:Z:2.0\tTS:i:300", "H\tVN:Z:3.0", "E\t*\tgarbage", "S\tA", "S\tA\tB\tC\tD", "E\t*\tA+\tB-\t5\t1\t0\t1\t*", "G\t*\tA+\tB\t1\t*",
                "F\tA\tr\t0\t1\t0\t1\t*", "O\t*\t", "U\tu", "S\tA\t*\tLN:Z:x", "S\tA\t1x\t*", "H\tVN:Z:", "H\tVN:i:1",
                "E\t*\tA+\tB-\t$\t1\t0\t1\t*", "S\tA\t*\txx:i:1\txx:i:2"]
# a header whose later tag cannot be read (at level 0 the tags are read when they are merged), and line
# objects which belong to another Gfa already ("@foreign:" + text)
BAD_DECIDERS += ["H\tyy:Z:ok\tzz:J:{bad", "H\tab:i:1\tcd:B:x,1", "H\tef:Z:fine\tgh:H:0G", "@foreign:S\tQ\t10\t*",
                 "@foreign:S\tQ\t*", "@foreign:E\te9\tA+\tB-\t0\t1\t0\t1\t*"]
BAD_DECIDERS += ["U\tu1\tu1 A", "O\to1\to1+ A+", "E\te1\te1+\tA-\t0\t1\t0\t1\t*", "G\tg1\tg1+\tA-\t1\t*"]
GOOD1 = ["S\tA\t*", "S\tB\tACGT", "H\tVN:Z:1.0"]
GOOD2 = ["S\tA\t10\t*", "S\tB\t4\tACGT", "H\tVN:Z:2.0", "E\te\tA+\tB-\t0\t1\t0\t1\t*"]


HEADER_START = [["H\txx:i:1"], ["H\txx:i:1", "H\txx:i:2"], ["H\tzz:Z:a\tTS:i:5"], ["H\tVN:Z:1.0"], [],
                ["H\tjj:J:[1]"], ["H\tff:f:1.5", "H\tff:f:2.5"]]
HEADER_ADDS = [("xx", 3, None), ("xx", "a", "Z"), ("xx", "a", None), ("xx", 1.5, "f"), ("xx", 7, "i"), ("zz", "b", None),
               ("zz", 5, "i"), ("TS", 6, None), ("TS", 5, None), ("VN", "2.0", None), ("VN", "1.0", None), ("jj", [2], "J"),
               ("jj", "x", "Z"), ("ff", 3.5, None), ("ff", "q", "Z"), ("nw", 1, None), ("nw", "a\tb", None),
               ("x", 1, None), ("xx", None, None), ("ff", float("inf"), None),
               # header line objects built at a lower level than the Gfa (nothing was checked when they
               # were built): a tag the Gfa accepts followed by one it may refuse
               ("@line", "H\tqa:Z:ok\tqb:Z:caf\u00e9", 0), ("@line", "H\tqc:i:1\tqd:Z:a\x01b", 0),
               ("@line", "H\tqe:Z:ok\tqf:i:x1", 0), ("@line", "H\tqg:Z:ok\tTS:i:77", 1),
               ("@line", "H\tqh:Z:ok\txx:Z:a", 1), ("@line", "H\tqi:Z:ok\tqj:J:{bad", 0),
               ("@line", "H\tqk:Z:ok\tql:H:0a", 0),
               # the VN tag through the other two ways of the header object
               ("@vn", "2.0", "attr"), ("@vn", "1.0", "attr"), ("@vn", "2.0", "set"), ("@vn", "1.0", "set"), ("@vn", "3.0", "attr")]
VN_ADDS = [i for i, a in enumerate(HEADER_ADDS) if a[0] in ("@vn", "VN")]


QUEUED_START = [["H\txx:i:1", "L\ta\t+\tb\t-\t*"], ["P\tp\ta+,b-\t*"], ["X\tcustom\trecord"], ["H\tzz:Z:a", "C\ta\t+\tb\t+\t0\t*"],
                ["# only a comment"], ["X\tcustom", "L\ta\t+\tb\t-\t*"]]


def cases(rng, tier, shard, nshards):
    while True:
        if rng.random() < 0.04:
            yield {"k": "journal", "vlevel": rng.choice([0, 1, 1, 2, 3]), "nbase": rng.choice([3, 4, 4]),
                   "steps": [("ok", rng.randrange(4)) if rng.random() < 0.3 else ("refused", rng.randrange(9))
                             for _ in range(rng.randint(2, 6))]}
            continue
        if rng.random() < 0.06:
            # values added to the header through its own API (multi-valued tags)
            c = {"k": "header-add", "start": rng.choice(HEADER_START), "vlevel": rng.randrange(4),
                 "adds": [rng.randrange(len(HEADER_ADDS)) for _ in range(rng.randint(1, 5))]}
            if rng.random() < 0.3:
                # a Gfa whose version is not known yet, with lines kept aside: the version is then given
                # through the header object (refused when the lines kept aside contradict it)
                c["start"] = rng.choice(QUEUED_START)
                c["queued"] = True
                c["adds"] = [rng.choice(VN_ADDS) for _ in range(rng.randint(1, 3))] + c["adds"][:2]
            yield c
            continue
        if rng.random() < 0.25:
            seq = []
            for _ in range(rng.randint(2, 8)):
                r = rng.random()
                if r < 0.4:
                    seq.append(rng.choice(BAD_DECIDERS))
                elif r < 0.75:
                    seq.append(rng.choice(QUEUED))
                else:
                    seq.append(rng.choice(GOOD1 + GOOD2))
            if rng.random() < 0.3:
                seq.insert(0, rng.choice(BAD_DECIDERS))      # (nothing is queued yet)
            seq = list(dict.fromkeys(seq))
            yield {"k": "unknown-version", "lines": seq, "vlevel": rng.choice([1, 1, 2, 3, 0])}
            continue
        c = H.gen_history(rng, nsteps=rng.randint(4, 16 if tier == "quick" else 40), failing=0.55,
                          fanout=rng.random() < 0.5, tags=rng.random() < 0.3)
        k = rng.random()
        if k < 0.25:
            c["vlevel"] = 0
        elif k < 0.45:
            c["vlevel"] = 3         # (assignments are checked when they are made)
        elif k < 0.55:
            c["vlevel"] = 2
        if rng.random() < 0.4:
            # give the header single-definition tags so that conflicting header lines exist
            ts = rng.randint(1, 9)
            c["steps"].insert(0, {"op": "add", "line": "H\tTS:i:%d" % ts, "as": "str"})
            for _ in range(rng.randint(1, 2)):
                pos = rng.randint(1, len(c["steps"]))
                c["steps"].insert(pos, {"op": "add", "as": "str", "expect": "fail",
                                        "line": rng.choice(["H\tzq:i:1\tTS:i:%d" % (ts + 1),
                                                            "H\tTS:i:%d\tzr:Z:x" % (ts + 1),
                                                            "H\tzs:Z:a\tVN:Z:7.0"])})
        yield c


def run_unknown_version(case, ctx):
    """a Gfa whose version is not known yet: failing calls (unsupported VN, malformed deciding
    lines) interleaved with lines that are queued; each failing call must leave the observation
    unchanged, and the final Gfa must equal the one built from the accepted lines alone."""
    import gfapy
    from ..mon import obs as O
    from ..mon.client import call
    g = gfapy.Gfa(vlevel=case["vlevel"])
    accepted = []
    nfail = 0
    for l in case["lines"]:
        before = O.obs(g)
        if l.startswith("@foreign:"):
            # a line object which is a line of another Gfa
            other = gfapy.Gfa(vlevel=case["vlevel"])
            other.add_line(l[9:])
            other.process_line_queue()
            objs = [x for x in other.lines if not x.virtual and x.record_type == l[9:10]]
            if not objs:
                continue
            r = call(ctx, "add_line(Line of another Gfa)", g.add_line, objs[0])
            ctx.count("foreign_line_objects_offered")
            if r.ok:
                return          # (accepted: the graphs are linked now, nothing more to say here)
        else:
            r = call(ctx, "add_line(str)", g.add_line, l)
        ctx.count("steps")
        if r.ok:
            accepted.append(l)
            continue
        nfail += 1
        ctx.count("failing_calls")
        ctx.add("failure_classes", "unknown-version/%s/%s" % (l.split("\t")[0], r.cls()))
        after = O.obs(g)
        if after != before:
            d = O.diff_obs(before, after)
            ctx.violation("state-changed-by-failed-call/unknown-version/%s/%s" % (l.split("\t")[0], H._what_changed(d)),
                          "add_line(%r) raised %s but the Gfa changed:\n  %s\n history %r"
                          % (l, r.cls(), "\n  ".join(d[:4]), case["lines"]))
            return
    if nfail:
        ctx.nontriv(case["lines"])
    # carry on: release the queue and compare with a Gfa that never saw the failing calls
    f1 = call(ctx, "process_line_queue", g.process_line_queue)
    with hooks.suspended():
        ref = gfapy.Gfa(vlevel=case["vlevel"])
        rr = None
        for l in accepted:
            if l.startswith("@foreign:"):
                continue
            rr = call(ctx, "add_line(str)", ref.add_line, l)
            if not rr.ok:
                break
        f2 = call(ctx, "process_line_queue", ref.process_line_queue)
    if rr is not None and not rr.ok:
        return          # the accepted lines are not a consistent document on their own (mixed versions)
    if f1.ok != f2.ok:
        ctx.violation("carry-on-differs/unknown-version/%s-vs-%s" % (f1.cls(), f2.cls()),
                      "after failed calls the queue release gives %r, without them %r; history %r"
                      % (f1, f2, case["lines"]))
        return
    if f1.ok and O.obs(g) != O.obs(ref):
        d = O.diff_obs(O.obs(ref), O.obs(g))
        ctx.violation("carry-on-differs/unknown-version/%s" % H._what_changed(d),
                      "Gfa after failed calls differs from the Gfa of the accepted lines:\n  %s\n history %r"
                      % ("\n  ".join(d[:4]), case["lines"]))
    ctx.count("carry_on_comparisons")
    ctx.sample(case)


def run_header_add(case, ctx):
    import gfapy
    from ..mon import obs as O
    from ..mon.client import call
    if case.get("queued"):
        def build():
            g_ = gfapy.Gfa(vlevel=case["vlevel"])
            for l_ in case["start"]:
                g_.add_line(l_)
            return g_
        r = call(ctx, "Gfa(); add_line ... (version unknown)", build)
        ctx.count("header_adds_on_unknown_version")
    else:
        r = call(ctx, "Gfa(list)", gfapy.Gfa, list(case["start"]), vlevel=case["vlevel"])
    if not r.ok:
        return
    g = r.value
    nfail = 0
    for i in case["adds"]:
        tag, value, dt = HEADER_ADDS[i]
        before = O.obs(g)
        if tag == "@vn":
            def assign():
                if dt == "attr":
                    g.header.VN = value
                else:
                    g.header.set("VN", value)
            rr = call(ctx, "header VN (%s)" % dt, assign)
        elif tag == "@line":
            lo = call(ctx, "Line(str)", gfapy.Line, value, vlevel=dt)
            if not lo.ok:
                continue
            rr = call(ctx, "add_line(header Line built at a lower level)", g.add_line, lo.value)
            ctx.count("header_line_objects_offered")
        else:
            rr = call(ctx, "header.add", lambda: g.header.add(tag, value, dt) if dt else g.header.add(tag, value))
        ctx.count("steps")
        ctx.count("header_add_calls")
        if rr.ok:
            continue
        nfail += 1
        ctx.count("failing_calls")
        ctx.add("failure_classes", "header-add/%s/%s" % (tag, rr.cls()))
        after = O.obs(g)
        if after != before:
            d = O.diff_obs(before, after)
            ctx.violation("state-changed-by-failed-call/header-add/%s" % H._what_changed(d),
                          "header.add(%r, %r, %r) at level %d on %r raised %s but the Gfa changed:\n  %s"
                          % (tag, value, dt, case["vlevel"], case["start"], rr.cls(), "\n  ".join(d[:4])))
            return
    if nfail:
        ctx.nontriv([case["start"], case["adds"], case["vlevel"]])


JOURNAL_REFUSED = ["E\t%(n)s\ts1+\t%(n)s-\t0\t10\t90\t100$\t*", "G\t%(n)s\ts1+\t%(n)s-\t10\t*", "E\t%(n)s\tx+\tu1-\t0\t10\t90\t100$\t*",
                   "E\t%(n)s\tx-\tu1+\t0\t10\t90\t100$\t*", "F\tu1\tread+\t0\t10\t0\t10\t*", "G\t%(n)s\tx+\tu1-\t10\t*",
                   "O\t%(n)s\ts1+ %(n)s+", "E\t%(n)s\ty+\to1-\t0\t10\t90\t100$\t*", "F\tx\tread+\t0\t10\t0\t10\t*"]
JOURNAL_ACCEPTED = ["S\ts3\t100\t*", "S\ts4\t50\t*", "E\t*\ts1+\ts2+\t90\t100$\t0\t10\t*", "# comment"]


def run_journal(case, ctx):
    """a group refers to identifiers which are not defined yet (placeholders of unknown type); several
    additions which are refused while their references are being created follow each other, with
    accepted ones in between: each refused call leaves the Gfa -- and the placeholders -- as they were."""
    import gfapy
    from ..mon import obs as O
    from ..mon.client import call
    g = gfapy.Gfa(version="gfa2", vlevel=case["vlevel"])
    for l in ["S\ts1\t100\t*", "S\ts2\t100\t*", "U\tu1\ts1 x", "O\to1\ts1+ y+"][:case["nbase"]]:
        if not call(ctx, "add_line(str)", g.add_line, l).ok:
            return

    def snap():
        types = {}
        for n in ("x", "y"):
            r = call(ctx, "line(name)", g.line, n)
            types[n] = (r.value.record_type, bool(r.value.virtual)) if r.ok and r.value is not None else None
        return O.obs(g), types
    nref = 0
    for i, (kind, j) in enumerate(case["steps"]):
        if kind == "ok":
            call(ctx, "add_line(str)", g.add_line, JOURNAL_ACCEPTED[j])
            continue
        line = JOURNAL_REFUSED[j] % {"n": "n%d" % i}
        before = snap()
        r = call(ctx, "add_line(str)", g.add_line, line)
        ctx.count("steps")
        if r.ok:
            return          # (accepted: not the scenario)
        nref += 1
        ctx.count("failing_calls")
        ctx.count("journal_refusals")
        after = snap()
        if after != before:
            d = O.diff_obs(before[0], after[0]) if before[0] != after[0] else ["placeholder types %r -> %r" % (before[1], after[1])]
            ctx.violation("state-changed-by-failed-call/consecutive-refusals/%s" % ("placeholder-type" if before[0] == after[0] else H._what_changed(d)),
                          "refusal no. %d: add_line(%r) raised %s but the Gfa changed:\n  %s\n steps %r"
                          % (nref, line, r.cls(), "\n  ".join(d[:4]), case["steps"]))
            return
    if nref >= 2:
        ctx.nontriv(case["steps"])


def run(case, ctx):
    if case.get("k") == "journal":
        return run_journal(case, ctx)
    if case.get("k") == "unknown-version":
        return run_unknown_version(case, ctx)
    if case.get("k") == "header-add":
        return run_header_add(case, ctx)
    shape = H.run_history(case, ctx, compare_every=False)
    fails = [s for s in shape if s.startswith("F:")]
    if fails:
        ctx.nontriv(case["steps"])
    ctx.sample(case)
