"""C08 — a failed mutation leaves the Gfa unchanged (M6 failure-atomicity guard)."""
from . import history as H
from ..mon import hooks

ID = "C08"


def setup(ctx):
    hooks.RATE = 3


def cases(rng, tier, shard, nshards):
    while True:
        c = H.gen_history(rng, nsteps=rng.randint(4, 16 if tier == "quick" else 40), failing=0.55,
                          fanout=rng.random() < 0.5, tags=rng.random() < 0.3)
        if rng.random() < 0.4:
            # give the header single-definition tags so that conflicting header lines exist
            ts = rng.randint(1, 9)
            c["steps"].insert(0, {"op": "add", "line": "H\tTS:i:%d" % ts, "as": "str"})
            for _ in range(rng.randint(1, 2)):
                pos = rng.randint(1, len(c["steps"]))
                c["steps"].insert(pos, {"op": "add", "as": "str", "expect": "fail",
                                        "line": rng.choice(["H\tzq:i:1\tTS:i:%d" % (ts + 1),
                                                            "H\tTS:i:%d\tzr:Z:x" % (ts + 1),
                                                            "H\tzs:Z:a\tVN:Z:7.0"])})
        yield c


def run(case, ctx):
    shape = H.run_history(case, ctx, compare_every=False)
    fails = [s for s in shape if s.startswith("F:")]
    if fails:
        ctx.nontriv(case["steps"])
    ctx.sample(case)
