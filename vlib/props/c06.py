"""C06 — GFA1 <-> GFA2 conversion preserves the graph and emits valid output."""
import os
import subprocess
import sys
import shutil
import tempfile
import gfapy
from ..gen import docs as G
from ..spec import grammar as S
from ..spec import edges as E
from ..spec import convert as CV
from ..spec import document as D
from ..mon import obs as O
from ..mon import hooks
from ..mon.client import call

ID = "C06"
_tmp = None


def setup(ctx):
    global _tmp
    _tmp = tempfile.mkdtemp(prefix="verif-c06-")
    hooks.RATE = 9


def finish(ctx):
    if _tmp:
        shutil.rmtree(_tmp, ignore_errors=True)


def gen_gfa1(rng):
    """GFA1 graph whose segments have a length and whose overlaps are specified and shorter than
    the segments (a dovetail spanning a whole segment is a containment in GFA2: UNSPECIFIED)."""
    n = rng.randint(2, 5)
    names = rng.sample(G.NAME_POOL_1, n)
    names = [x for x in names if "," not in x]
    lines, lens = [], {}
    for s in names:
        L = rng.randint(8, 20)
        lens[s] = L
        seq = G.rseq(rng, L) if rng.random() < 0.5 else "*"
        tags = ["LN:i:%d" % L] if seq == "*" or rng.random() < 0.3 else []
        if rng.random() < 0.3:
            tags.append("RC:i:%d" % rng.randint(0, 99))
        if rng.random() < 0.3:
            tags.append("xx:Z:t ag")
        lines.append("\t".join(["S", s, seq] + tags))
    links = []
    seen = set()
    for _ in range(rng.randint(1, 2 * n)):
        f, t = rng.choice(names), rng.choice(names)
        fo, to = rng.choice("+-"), rng.choice("+-")
        key = min((f, fo, t, to), (t, S.inv(to), f, S.inv(fo)))
        if key in seen:
            continue
        ov = None
        for _ in range(20):
            c = G.cigar1(rng, nops=rng.randint(1, 4), ops="MIDP", maxlen=4)
            if 0 < CV.ref_len(c) < lens[f] and 0 < CV.query_len(c) < lens[t]:
                ov = c
                break
        if ov is None:
            continue
        seen.add(key)
        tags = []
        if rng.random() < 0.4:
            tags.append("ID:Z:lk%d" % len(links))
        if rng.random() < 0.3:
            tags.append("MQ:i:%d" % rng.randint(0, 60))
        if rng.random() < 0.3:
            tags.append("zz:f:1.5")
        links.append((f, fo, t, to, ov))
        lines.append("\t".join(["L", f, fo, t, to, ov] + tags))
    for _ in range(rng.choice([0, 1, 1, 2])):
        if len(names) < 2:
            break
        f, t = rng.sample(names, 2)
        if lens[t] > lens[f]:
            f, t = t, f
        ov = G._cigar_with_lengths(rng, "MIDP", None, lens[t], maxref=lens[f])
        if ov is None:
            continue
        rl = CV.ref_len(ov)
        pos = rng.choice([0, lens[f] - rl, rng.randint(0, lens[f] - rl)])
        fo = rng.choice(["+", "+", "-"])
        tags = ["ID:Z:ct%d" % len(lines)] if rng.random() < 0.3 else []
        lines.append("\t".join(["C", f, fo, t, rng.choice("+-"), str(pos), ov] + tags))
    # a circular path of one segment (it runs over a link from the segment end to the same segment)
    selfl = [l for l in links if l[0] == l[2] and l[1] == l[3]]
    if selfl and rng.random() < 0.6:
        f, fo, t, to, ov = rng.choice(selfl)
        if rng.random() < 0.5:
            lines.append("P\tpc\t%s%s\t%s" % (f, fo, ov))
        else:
            lines.append("P\tpc\t%s%s\t%s" % (f, S.inv(fo), S.cigar_complement(ov)))
    # paths over links in either direction
    if links and rng.random() < 0.6:
        adj = {}
        for (f, fo, t, to, ov) in links:
            adj.setdefault((f, fo), []).append(((t, to), ov))
            adj.setdefault((t, S.inv(to)), []).append(((f, S.inv(fo)), S.cigar_complement(ov)))
        prev = None
        for pn in ["pth", "pth2", "pth3"][:rng.choice([1, 1, 2, 3])]:
            if prev is not None and rng.random() < 0.5:
                # the previous path walked the other way round (same links, opposite direction)
                psegs, povs = prev
                segs = [(a, S.inv(b)) for a, b in reversed(psegs)]
                ovs = [S.cigar_complement(o) for o in reversed(povs[:len(psegs) - 1])]
            else:
                cur = rng.choice(list(adj))
                segs, ovs = [cur], []
                for _ in range(rng.randint(1, 4)):
                    if cur not in adj:
                        break
                    nxt, ov = rng.choice(adj[cur])
                    segs.append(nxt)
                    ovs.append(ov)
                    cur = nxt
                if len(segs) >= 2:
                    for nxt, ov in adj.get(cur, []):
                        if nxt == segs[0] and rng.random() < 0.5:
                            ovs.append(ov)
                            break
            if len(segs) >= 2:
                lines.append("P\t%s\t%s\t%s" % (pn, ",".join(a + b for a, b in segs), ",".join(ovs)))
                prev = (segs, ovs)
    elif rng.random() < 0.3:
        lines.append("P\tpth\t%s+\t*" % names[0])
    if rng.random() < 0.5:
        lines.insert(0, "H\tVN:Z:1.0" + ("\tab:i:5" if rng.random() < 0.5 else ""))
    if rng.random() < 0.3:
        lines.append("# a comment")
    if rng.random() < 0.5:
        # any arrival order (paths before the links they use, links before their segments)
        body = [l for l in lines if not l.startswith("H")]
        rng.shuffle(body)
        lines = [l for l in lines if l.startswith("H")] + body
    return lines


def gen_gfa2(rng):
    # (a GFA2 segment carrying a custom tag named LN has no faithful GFA1 counterpart -- LN is the
    #  predefined length tag there: not generated)
    d = G.gen_gfa2(rng, canonical=True, tags=rng.random() < 0.4, nog=0, nug=rng.choice([0, 1]), ngaps=rng.choice([0, 1]),
                   nfrags=rng.choice([0, 1]), ncustom=rng.choice([0, 1]), alias_tags=False)
    # GFA1-compatible names only (a name with ',' or starting with '*'/'=' has no GFA1 counterpart)
    bad = [s for s in d.segments if not S.fm("name1", s["sid"]) or "," in s["sid"] or s["sid"].endswith(("+", "-"))]
    if bad:
        return None
    seen = set()
    keep = []
    for e in d.edges:
        # an alignment consistent with the two intervals (or none)
        l1 = int(e["e1"].rstrip("$")) - int(e["b1"].rstrip("$"))
        l2 = int(e["e2"].rstrip("$")) - int(e["b2"].rstrip("$"))
        e["aln"] = "*" if rng.random() < 0.2 else G.consistent_cigar(rng, l1, l2)
        # parallel edges over one oriented pair become duplicate links in GFA1 (UNSPECIFIED there)
        k = min((e["s1"], e["o1"], e["s2"], e["o2"]), (e["s2"], S.inv(e["o2"]), e["s1"], S.inv(e["o1"])),
                (e["s2"], e["o2"], e["s1"], e["o1"]), (e["s1"], S.inv(e["o1"]), e["s2"], S.inv(e["o2"])))
        if k in seen:
            continue
        seen.add(k)
        keep.append(e)
    d.edges = keep
    d.ogroups = [o for o in d.ogroups if all(i not in [x["eid"] for x in d.edges] or True for i, _ in o["items"])]
    live = set(x["eid"] for x in d.edges) | set(x["sid"] for x in d.segments)
    d.ugroups = [u for u in d.ugroups if all(i in live for i in u["items"])]
    d.ogroups = [o for o in d.ogroups if all(i in live for i, _ in o["items"])]
    return d.lines()


def consistent_cigar(rng, rl, ql):
    """CIGAR (M, I, D, P) with exactly the given reference and query lengths."""
    ops = []
    r, q = rl, ql
    last = None
    guard = 0
    while (r > 0 or q > 0) and guard < 50:
        guard += 1
        choices = []
        if r > 0 and q > 0:
            choices += ["M", "M"]
        if r > 0:
            choices.append("D")
        if q > 0:
            choices.append("I")
        if rng.random() < 0.15:
            choices.append("P")
        c = rng.choice([x for x in choices if x != last] or choices)
        if c == "M":
            n = rng.randint(1, min(r, q))
            r -= n
            q -= n
        elif c == "D":
            n = rng.randint(1, r)
            r -= n
        elif c == "I":
            n = rng.randint(1, q)
            q -= n
        else:
            n = rng.randint(1, 3)
        ops.append("%d%s" % (n, c))
        last = c
    if not ops:
        return "*" if rng.random() < 0.5 else "2P"
    return "".join(ops)


def gen_gfa1_only_ops(rng):
    """GFA1 links/containments whose overlaps use operations GFA2 alignments do not have
    (=, X, N, S, H): the record has no exact GFA2 counterpart."""
    n = rng.randint(2, 4)
    names = rng.sample(["a", "b", "c", "d", "s1"], n)
    lines = ["S\t%s\t*\tLN:i:%d" % (s, rng.randint(20, 40)) for s in names]
    k = 0
    for _ in range(rng.randint(1, 4)):
        f, t = rng.sample(names, 2) if rng.random() < 0.8 else (names[0], names[0])
        ops = "MID" + rng.choice(["=", "X", "N", "S", "H", "=X"])
        c = G.cigar1(rng, nops=rng.randint(1, 4), ops=ops, maxlen=4)
        if not any(ch in c for ch in "=XNSH"):
            c += "2" + rng.choice("=XNSH")
        if not (0 < CV.ref_len(c) < 20 and 0 < CV.query_len(c) < 20):
            continue
        k += 1
        tags = ["ID:Z:x%d" % k] if rng.random() < 0.5 else []
        if rng.random() < 0.75:
            lines.append("\t".join(["L", f, rng.choice("+-"), t, rng.choice("+-"), c] + tags))
        elif f != t:
            lines.append("\t".join(["C", f, "+", t, rng.choice("+-"), "0", c] + tags))
    if rng.random() < 0.4:
        lines.append("L\t%s\t+\t%s\t-\t3M1I" % (names[0], names[-1]))
    return lines


def gen_no_counterpart(rng):
    """documents with a record whose identifier / sequence cannot be written in the other version."""
    if rng.random() < 0.6:
        bad = rng.choice(["a+,b", "*x", "=y", "x-,y", "p,q"])
        seq = rng.choice(["*", "ACGT", "AC-GT", "12", "a*b"])
        if rng.random() < 0.4:
            bad, seq = "ok1", rng.choice(["AC-GT", "12", "a*b", "A,C"])
        slen = len(seq) if seq != "*" else 9
        lines = ["S\t%s\t%d\t%s" % (bad, slen, seq), "S\tz\t8\t*"]
        if rng.random() < 0.6:
            # (a dovetail: the end of the one segment on the end of the other, reversed)
            lines.append("E\te1\t%s+\tz-\t%d\t%d$\t5\t8$\t%s" % (bad, max(slen - 3, 0), slen,
                                                                   "3M" if slen >= 3 else "%dM%dI" % (slen, 3 - slen)))
        if rng.random() < 0.3:
            lines.append("O\tpth\t%s+ z-" % bad)
        return "gfa2", lines
    lines = ["S\ta\t*\tLN:i:9", "S\tb\t*\tLN:i:9",
             "%s\tID:Z:%s" % (rng.choice(["L\ta\t+\tb\t-\t3M", "C\ta\t+\tb\t-\t1\t3M"]), rng.choice(["my link", "a b", " x"]))]
    return "gfa1", lines


def gen_whole_segment(rng):
    """links whose overlap covers the whole of one or of both segments, in every orientation pair
    (which kind of E line that is may be argued about; where the '$' belongs may not: on every
    position which is the end of the segment, and on no other)."""
    la, lb = rng.randint(3, 12), rng.randint(3, 12)
    k = rng.choice(["both", "from", "to", "zero"])
    if k == "both":
        lb = la
        ov = "%dM" % la
    elif k == "from":
        lb = la + rng.randint(1, 4)
        ov = "%dM" % la if rng.random() < 0.5 else "%dM%dI" % (la, rng.randint(1, lb - la))
    elif k == "to":
        la = lb + rng.randint(1, 4)
        ov = "%dM" % lb if rng.random() < 0.5 else "%dM%dD" % (lb, rng.randint(1, la - lb))
    else:
        ov = "0M"
    segs = ["S\ta\t*\tLN:i:%d" % la, "S\tb\t%s" % G.rseq(rng, lb)]
    t = rng.choice(["b", "b", "a"]) if k in ("both", "zero") else "b"
    return segs + ["L\ta\t%s\t%s\t%s\t%s" % (rng.choice("+-"), t, rng.choice("+-"), ov)], k


def dollar_rule(ctx, out, what):
    """'$' exactly at a segment's end: on every position of an E or F line which equals the length
    of the segment it lies on, and on no other."""
    recs = [S.parse_line(l, "gfa2") for l in out]
    slen = {r.pos[0]: int(r.pos[1]) for r in recs if r.rt == "S" and r.pos[1].isdigit()}
    for r in recs:
        if r.rt == "E":
            chk = [(r.pos[1][:-1], r.pos[3]), (r.pos[1][:-1], r.pos[4]), (r.pos[2][:-1], r.pos[5]), (r.pos[2][:-1], r.pos[6])]
        elif r.rt == "F":
            chk = [(r.pos[0], r.pos[2]), (r.pos[0], r.pos[3])]
        else:
            continue
        for sid, p in chk:
            if sid not in slen or not p.rstrip("$").isdigit():
                continue
            ctx.count("positions_checked_for_$")
            if (int(p.rstrip("$")) == slen[sid]) != p.endswith("$"):
                ctx.violation("dollar-misplaced/%s/%s" % (what, "missing" if not p.endswith("$") else "on-inner-position"),
                              "%r: position %s on segment %s of length %d; converted document %r"
                              % (r.text(), p, sid, slen[sid], out))
                return False
    return True


def run_whole_segment(case, ctx):
    lines, vlevel = case["lines"], case["vlevel"]
    r = build(ctx, lines, "gfa1", vlevel)
    if not r.ok:
        ctx.violation("valid-document-refused/%s" % r.cls(), "%r: %s" % (lines, str(r.exc)[:200]), prop="C01")
        return
    c = call(ctx, "to_gfa2_s", r.value.to_gfa2_s)
    ctx.count("whole_segment_overlap_conversions")
    ctx.add("whole_segment_kinds", case["wk"])
    if not c.ok:
        ctx.violation("to_gfa2-raises/%s" % c.cls(), "%r: %s" % (lines, str(c.exc)[:300]))
        return
    out = S.split_doc(c.value)
    if not dollar_rule(ctx, out, "1to2"):
        return
    recs1 = [S.parse_line(l, "gfa1") for l in lines]
    lens = CV.seg_lengths(recs1, "gfa1")
    want = [CV.e_nf(CV.e_of_link(x, lens)) for x in recs1 if x.rt == "L"]
    got = [CV.e_nf(CV.e_tuple(y)) for y in (S.parse_line(l, "gfa2") for l in out) if y.rt == "E"]
    if sorted(want) != sorted(got):
        ctx.violation("edge-mistranslated/1to2/whole-segment", "expected (normal form) %r, got %r\n document %r\n converted %r"
                      % (want, got, lines, out))
        return
    ctx.nontriv(lines)
    ctx.sample({"version": "gfa1", "lines": lines, "converted": out})


def gen_paths_2to1(rng):
    """a GFA2 graph of dovetails (written from an independent GFA1-style model: oriented pair,
    CIGAR, lengths) with ordered groups which walk over them in either direction, listed as
    segments only, alternating, edges only, a single edge, or beginning / ending with an edge."""
    n = rng.randint(2, 5)
    names = rng.sample(["a", "b", "c", "d", "s1", "x2"], n)
    lens = {s: rng.randint(8, 20) for s in names}
    lines = ["S\t%s\t%d\t*" % (s, lens[s]) for s in names]
    links = []
    seen = set()
    for _ in range(rng.randint(1, 2 * n)):
        f, t = rng.choice(names), rng.choice(names)
        fo, to = rng.choice("+-"), rng.choice("+-")
        if f == t and fo != to:
            continue        # (a hairpin is its own complement: '+' and '-' traversals coincide)
        # one edge per pair of segment ends, whatever its direction (gfapy resolves a listing by
        # the oriented pair alone: two edges over one pair make the listing ambiguous)
        key = frozenset([(f, fo), (t, to)])
        ikey = frozenset([(f, S.inv(fo)), (t, S.inv(to))])
        if key in seen or ikey in seen:
            continue
        ov = None
        for _ in range(20):
            c = G.cigar1(rng, nops=rng.randint(1, 3), ops="MID", maxlen=4)
            if 0 < CV.ref_len(c) < lens[f] and 0 < CV.query_len(c) < lens[t]:
                ov = c
                break
        if ov is None:
            continue
        seen.add(key)
        eid = "e%d" % len(links)
        links.append((f, fo, t, to, ov, eid))
        e = CV.e_of_link(S.parse_line("\t".join(["L", f, fo, t, to, ov]), "gfa1"), lens)
        if rng.random() < 0.5:
            e = CV.e_swap(e)
        lines.append("\t".join(["E", eid, e[0] + e[1], e[2] + e[3], e[4][0], e[4][1], e[5][0], e[5][1], e[6]]))
    if not links:
        return None
    adj = {}
    for (f, fo, t, to, ov, eid) in links:
        adj.setdefault((f, fo), []).append(((t, to), ov, eid, "+"))
        adj.setdefault((t, S.inv(to)), []).append(((f, S.inv(fo)), S.cigar_complement(ov), eid, "-"))
    paths = []
    for pn in ["pa", "pb", "pc"][:rng.choice([1, 2, 3])]:
        cur = rng.choice(sorted(adj))
        segs, eds, ovs = [cur], [], []
        for _ in range(rng.choice([1, 1, 2, 3, 4])):
            if cur not in adj:
                break
            nxt, ov, eid, sg = rng.choice(adj[cur])
            segs.append(nxt)
            eds.append((eid, sg))
            ovs.append(ov)
            cur = nxt
        if not eds:
            continue
        pres = rng.choice(["segments", "alternating", "edges", "edge-first", "edge-last", "edge-both"])
        if len(eds) == 1 and rng.random() < 0.4:
            pres = "edges"
        sitems = [a + o for a, o in segs]
        eitems = [e + o for e, o in eds]
        alt = []
        for i, si in enumerate(sitems):
            alt.append(si)
            if i < len(eitems):
                alt.append(eitems[i])
        items = {"segments": sitems, "alternating": alt, "edges": eitems, "edge-first": alt[1:],
                 "edge-last": alt[:-1], "edge-both": alt[1:-1]}[pres]
        lines.append("O\t%s\t%s" % (pn, " ".join(items)))
        paths.append({"name": pn, "segs": sitems, "ovs": ovs, "presentation": pres, "nedges": len(eds)})
    if n >= 2 and rng.random() < 0.3:
        # an ordered group which walks over a containment: a GFA1 path runs over links only, so this
        # group has no counterpart (dropped or refused, never written as a path)
        big, small = sorted(rng.sample(names, 2), key=lambda x: -lens[x])
        joined = any({f, t} == {big, small} for (f, fo, t, to, ov, eid) in links)
        if lens[big] > lens[small] and not joined:
            off = rng.randint(0, lens[big] - lens[small])
            lb = lens[small]
            lines.append("\t".join(["E", "ce", big + "+", small + "+", str(off), CV.pos2(off + lb, lens[big]), "0", "%d$" % lb,
                                    "%dM" % lb]))
            items = rng.choice([[big + "+", "ce+", small + "+"], ["ce+"], ["ce+", small + "+"], [big + "+", "ce+"]])
            lines.append("O\tpcont\t%s" % " ".join(items))
            paths.append({"name": "pcont", "no_counterpart": True, "presentation": "over-containment", "nedges": 1,
                          "segs": [], "ovs": []})
    if not paths:
        return None
    return lines, paths


def run_paths_2to1(case, ctx):
    lines, vlevel = case["lines"], case["vlevel"]
    r = build(ctx, lines, "gfa2", vlevel)
    if not r.ok:
        # (whether a listing is a valid ordered group is C17's question)
        ctx.violation("valid-group-refused/%s" % r.cls(), "%r: %s" % (lines, str(r.exc)[:200]), prop="C17")
        return
    c = call(ctx, "to_gfa1_s", r.value.to_gfa1_s)
    ctx.count("path_conversions_2to1")
    nocp = [p_ for p_ in case["paths"] if p_.get("no_counterpart")]
    if not c.ok:
        if nocp and c.kind == "gfapy":
            ctx.count("groups_over_containments_refused")
            return          # refused with an error
        ctx.violation("to_gfa1-raises/%s/paths" % c.cls(), "%r: %s" % (lines, str(c.exc)[:300]))
        return
    if nocp:
        ctx.count("groups_over_containments_converted")
        if any(l.startswith("P\tpcont\t") for l in S.split_doc(c.value)):
            ctx.violation("record-without-counterpart-translated/O-over-containment",
                          "the group pcont walks over a containment and was written as a GFA1 path\n document %r\n converted %r"
                          % (lines, S.split_doc(c.value)))
            return
    out = S.split_doc(c.value)
    recs1 = [S.parse_line(l, "gfa1") for l in out]
    for pth in case["paths"]:
        ctx.add("path_presentations", "%s/%s" % (pth["presentation"], "1" if pth["nedges"] == 1 else "n"))
        if pth.get("no_counterpart"):
            continue
        ps = [x for x in recs1 if x.rt == "P" and x.pos[0] == pth["name"]]
        if len(ps) != 1:
            ctx.violation("path-lost/2to1", "%s (%s) in %r; converted %r" % (pth["name"], pth["presentation"], lines, out))
            return
        got = ps[0].pos[1].split(",")
        if got != pth["segs"]:
            ctx.violation("path-segments-differ/2to1/%s" % pth["presentation"],
                          "the group %s walks over %r, the converted path is %r\n document %r\n converted %r"
                          % (pth["name"], pth["segs"], ps[0].text(), lines, out))
            return
        govs = ps[0].pos[2].split(",")
        if govs != ["*"] and govs != pth["ovs"]:
            ctx.violation("path-overlaps-differ/2to1/%s" % pth["presentation"],
                          "the group %s walks over the alignments %r, the converted path is %r\n document %r"
                          % (pth["name"], pth["ovs"], ps[0].text(), lines))
            return
        ctx.count("paths_compared_2to1")
    if not check_valid_target(ctx, out, "gfa1", "2to1-paths"):
        return
    ctx.nontriv(lines)
    ctx.sample({"version": "gfa2", "lines": lines, "converted": out})
    if len(repr(lines)) % 2 == 0:
        replaced_edge_then_converted(ctx, r.value, lines, vlevel)


def replaced_edge_then_converted(ctx, g, lines, vlevel):
    """after a conversion an edge is removed and another alignment of the same two segment ends is
    added under its name; the conversion of the Gfa must again equal the conversion of a Gfa parsed
    afresh from what it writes (groups which only imply the edge live on and walk over the new one)."""
    import random
    rng = random.Random(len(repr(lines)) * 17 + vlevel)
    es = [l for l in g.lines if l.record_type == "E" and not l.virtual and isinstance(l.name, str)]
    if not es:
        return
    e = rng.choice(es)
    f = O.safe_str(e).split("\t")
    aln = f[8]
    new = "*" if aln != "*" and rng.random() < 0.4 else CV.swap_id(aln) if CV.swap_id(aln) != aln and "," not in aln else aln
    if new == aln or new == "*trace*":
        # the same intervals read with insertions and deletions exchanged are not consistent with the
        # lengths in general: fall back to an M-only alignment of the reference length
        new = "*"
    f[8] = new
    if f[8] == aln:
        return

    def edit():
        g.rm(e.name)
        g.add_line("\t".join(f))
    rr = call(ctx, "rm(edge); add_line(other alignment)", edit)
    if not rr.ok:
        return
    ctx.count("conversions_after_edge_replacement")
    text = [O.safe_str(l) for l in g.lines if not l.virtual]
    c1 = call(ctx, "to_gfa1_s (edited Gfa)", g.to_gfa1_s)
    fr = call(ctx, "Gfa(text of the edited Gfa)", gfapy.Gfa, list(text), version="gfa2", vlevel=vlevel)
    if not fr.ok:
        return
    c2 = call(ctx, "to_gfa1_s (fresh parse)", fr.value.to_gfa1_s)
    if c1.ok != c2.ok:
        ctx.violation("conversion-depends-on-history/%s-vs-%s/edge-replaced" % (c1.cls(), c2.cls()),
                      "after replacing %r by %r: the Gfa converts -> %s, a fresh parse of its text -> %s\n text %r"
                      % (O.safe_str(e), "\t".join(f), c1.cls() if not c1.ok else "ok", c2.cls() if not c2.ok else "ok", text))
        return
    if c1.ok:
        a = sorted(S.split_doc(c1.value))
        b = sorted(S.split_doc(c2.value))
        if a != b:
            ma = [x for x in a if x not in b]
            mb = [x for x in b if x not in a]
            ctx.violation("conversion-depends-on-history/%s/edge-replaced" % ((ma or mb)[0][0]),
                          "after replacing an edge by %r: the edited Gfa gives %r, a fresh parse gives %r\n text %r"
                          % ("\t".join(f), ma[:3], mb[:3], text))


def cases(rng, tier, shard, nshards):
    while True:
        if rng.random() < 0.08:
            x = gen_paths_2to1(rng)
            if x is not None:
                yield {"version": "gfa2", "k": "paths-2to1", "lines": x[0], "paths": x[1], "vlevel": rng.choice([1, 2, 3])}
            continue
        if rng.random() < 0.04:
            l, wk = gen_whole_segment(rng)
            yield {"version": "gfa1", "k": "whole-segment", "wk": wk, "lines": l, "vlevel": rng.choice([1, 2, 3])}
            continue
        if rng.random() < 0.03:
            v, l = gen_no_counterpart(rng)
            yield {"version": v, "k": "no-counterpart", "lines": l, "vlevel": rng.choice([0, 1, 2, 3])}
            continue
        if rng.random() < 0.08:
            l = gen_gfa1_only_ops(rng)
            if any(x[0] in "LC" and any(ch in x.split("\t")[5 if x[0] == "L" else 6] for ch in "=XNSH") for x in l):
                yield {"version": "gfa1", "k": "gfa1-only-ops", "lines": l, "vlevel": rng.choice([0, 1, 2, 3])}
            continue
        if rng.random() < 0.6:
            yield {"version": "gfa1", "lines": gen_gfa1(rng), "vlevel": rng.choice([1, 2, 3]),
                   "cli": rng.random() < 0.01}
        else:
            l = gen_gfa2(rng)
            if l is None:
                continue
            yield {"version": "gfa2", "lines": l, "vlevel": rng.choice([1, 2, 3]), "cli": rng.random() < 0.01}


def tags_without(rec, drop):
    return frozenset(S.canon_tag(*t) for t in rec.tags if t[0] not in drop)


def run_gfa1_only_ops(case, ctx):
    """an alignment with GFA1-only operations has no GFA2 counterpart: the conversion refuses
    (gfapy.Error), drops the record, or emits valid GFA2 -- never text which is not GFA2."""
    lines, vlevel = case["lines"], case["vlevel"]
    r = build(ctx, lines, "gfa1", vlevel)
    if not r.ok:
        ctx.violation("valid-document-refused/%s" % r.cls(), "%r: %s" % (lines, str(r.exc)[:200]), prop="C01")
        return
    g = r.value
    ctx.nontriv(lines)
    ways = [("Gfa.to_gfa2_s", g.to_gfa2_s)]
    for l in g.lines:
        if l.record_type in ("L", "C"):
            ways.append(("Line.to_gfa2_s", l.to_gfa2_s))
            ways.append(("Line.to_gfa2", lambda l=l: str(l.to_gfa2())))
    for what, fn in ways:
        c = call(ctx, what, fn)
        ctx.count("gfa1_only_alignment_conversions")
        if not c.ok:
            ctx.count("gfa1_only_alignment_refused")
            continue
        out = S.split_doc(c.value)
        for l in out:
            if l.startswith("E\t"):
                v = D.recognise_doc([x for x in out if x.startswith("S\t")] + [l], "gfa2") if what.startswith("Gfa") \
                    else S.recognise_line(l, "gfa2")
                if v[0] == S.INVALID:
                    ctx.violation("converted-text-invalid/gfa1-only-alignment/%s" % what.split(".")[0],
                                  "%s of %r gives %r (%s)" % (what, lines, l, v[1]))
                    return
    if case.get("cli") or hash(repr(lines)) % 40 == 0:
        root = os.environ.get("GFAPY_ROOT", "/repo")
        fn = os.path.join(_tmp, "cli1.gfa")
        with open(fn, "w") as f:
            f.write("\n".join(lines) + "\n")
        try:
            p = subprocess.run([sys.executable, "-B", os.path.join(root, "bin", "gfapy-convert"), fn],
                               capture_output=True, text=True, timeout=120)
        except subprocess.TimeoutExpired:
            ctx.inconc("gfapy-convert watchdog")
            return
        ctx.count("cli_runs")
        if p.returncode == 0:
            for l in S.split_doc(p.stdout):
                if l.startswith("E\t") and S.recognise_line(l, "gfa2")[0] == S.INVALID:
                    ctx.violation("converted-text-invalid/gfa1-only-alignment/cli", "gfapy-convert of %r prints %r" % (lines, l))
                    return
    ctx.sample({"version": "gfa1", "lines": lines, "kind": "gfa1-only-ops"})


def run_no_counterpart(case, ctx):
    lines, vlevel, v = case["lines"], case["vlevel"], case["version"]
    r = build(ctx, lines, v, vlevel)
    if not r.ok:
        ctx.violation("valid-document-refused/%s" % r.cls(), "%r: %s" % (lines, str(r.exc)[:200]), prop="C01")
        return
    g = r.value
    target = "gfa1" if v == "gfa2" else "gfa2"
    ctx.nontriv(lines)
    c = call(ctx, "Gfa.to_%s_s" % target, g.to_gfa1_s if target == "gfa1" else g.to_gfa2_s)
    ctx.count("no_counterpart_conversions")
    if not c.ok:
        ctx.count("no_counterpart_refused")
    else:
        out = [l for l in S.split_doc(c.value) if l]
        for l in out:
            vd = S.recognise_line(l, target)
            if vd[0] == S.INVALID:
                ctx.violation("converted-text-invalid/no-counterpart/%s" % l.split("\t")[0], "to_%s_s of %r (level %d) gives %r (%s)"
                              % (target, lines, vlevel, l, vd[1]))
                return
        ctx.sample({"version": v, "lines": lines, "kind": "no-counterpart", "converted": out})
    # the conversion to a Gfa object: refused, or a Gfa whose text is a valid document of the target
    # version (a record dropped on its own would leave the lines which refer to it dangling)
    o = call(ctx, "Gfa.to_%s" % target, g.to_gfa1 if target == "gfa1" else g.to_gfa2)
    ctx.count("no_counterpart_object_conversions")
    if not o.ok:
        ctx.count("no_counterpart_refused")
        return
    text = [O.safe_str(l) for l in o.value.lines]
    if any("GFAPY_virtual_line" in l for l in text):
        ctx.violation("converted-graph-open/no-counterpart", "to_%s of %r (level %d) gives a Gfa with placeholders: %r"
                      % (target, lines, vlevel, text))
        return
    for l in text:
        vd = S.recognise_line(l, target)
        if vd[0] == S.INVALID:
            ctx.violation("converted-text-invalid/no-counterpart-object/%s" % l.split("\t")[0], "to_%s of %r (level %d) holds %r (%s)"
                          % (target, lines, vlevel, l, vd[1]))
            return


def run(case, ctx):
    if case.get("k") == "no-counterpart":
        return run_no_counterpart(case, ctx)
    if case.get("k") == "gfa1-only-ops":
        return run_gfa1_only_ops(case, ctx)
    if case.get("k") == "whole-segment":
        return run_whole_segment(case, ctx)
    if case.get("k") == "paths-2to1":
        return run_paths_2to1(case, ctx)
    if case["version"] == "gfa1":
        return run_1to2(case, ctx)
    return run_2to1(case, ctx)


def build(ctx, lines, version, vlevel):
    return call(ctx, "Gfa(list)", gfapy.Gfa, lines, version=version, vlevel=vlevel)


def check_valid_target(ctx, text_lines, version, what):
    v = D.recognise_doc(text_lines, version)
    if v[0] == S.INVALID:
        ctx.violation("converted-text-invalid/%s/%s" % (what, v[1]), "%r" % text_lines)
        return False
    r = call(ctx, "Gfa(converted)", gfapy.Gfa, list(text_lines), version=version, vlevel=3)
    if r.ok:
        r2 = call(ctx, "validate", r.value.validate)
        if not r2.ok:
            r = r2
    if not r.ok:
        ctx.violation("converted-text-refused/%s/%s" % (what, r.cls()), "%r: %s" % (text_lines, str(r.exc)[:200]))
        return False
    return True


def edited_then_converted_1to2(ctx, g, lines, vlevel):
    """after the first conversion (everything has been computed once): the length of a segment without
    sequence is changed, or a link is disconnected, given another overlap and added again; the second
    conversion must equal the conversion of a Gfa parsed afresh from what the Gfa writes."""
    import random
    rng = random.Random(len(repr(lines)) * 17 + vlevel)
    how = rng.choice(["LN", "overlap"])
    links = [l for l in g.lines if l.record_type == "L" and not l.virtual]
    if not links:
        return
    l = rng.choice(links)
    if how == "LN":
        seg = rng.choice([l.from_segment, l.to_segment])
        try:
            if not gfapy.is_placeholder(seg.sequence) or seg.LN is None:
                return
            new = int(seg.LN) + rng.randint(1, 9)
        except Exception:
            return
        rr = call(ctx, "segment.LN = n", lambda: setattr(seg, "LN", new))
    else:
        try:
            ov = str(l.overlap)
        except Exception:
            return
        if ov == "*":
            return
        newov = "1M" if ov != "1M" else "2M"

        def edit():
            # (paths over the link go with it)
            l.disconnect()
            l.set("overlap", newov)
            g.add_line(l)
        rr = call(ctx, "disconnect;edit;add_line(same object)", edit)
    if not rr.ok:
        return
    ctx.count("conversions_after_edit")
    text = [O.safe_str(x) for x in g.lines if not x.virtual]
    c1 = call(ctx, "to_gfa2_s (edited Gfa)", g.to_gfa2_s)
    text = [O.safe_str(x) for x in g.lines if not x.virtual]      # (the conversion names the links)
    fr = call(ctx, "Gfa(text of the edited Gfa)", gfapy.Gfa, list(text), version="gfa1", vlevel=vlevel)
    if not fr.ok:
        return
    c2 = call(ctx, "to_gfa2_s (fresh parse)", fr.value.to_gfa2_s)
    if c1.ok != c2.ok:
        ctx.violation("conversion-depends-on-history/%s-vs-%s" % (c1.cls(), c2.cls()),
                      "after %s: the Gfa converts -> %s, a fresh parse of its text -> %s\n text %r"
                      % (how, c1.cls() if not c1.ok else "ok", c2.cls() if not c2.ok else "ok", text))
        return
    if c1.ok:
        norm = lambda t: sorted(repr(x) for x in S.canon_doc(S.split_doc(t), "gfa2"))
        a, bq = norm(c1.value), norm(c2.value)
        if a != bq:
            ma = [x for x in a if x not in bq]
            mb = [x for x in bq if x not in a]
            ctx.violation("conversion-depends-on-history/1to2/%s" % how,
                          "after the edit (%s): edited Gfa gives %r, fresh parse gives %r\n text %r" % (how, ma[:3], mb[:3], text))


def run_1to2(case, ctx):
    lines, vlevel = case["lines"], case["vlevel"]
    r = build(ctx, lines, "gfa1", vlevel)
    if not r.ok:
        ctx.violation("valid-document-refused/%s" % r.cls(), "%r: %s" % (lines, str(r.exc)[:200]), prop="C01")
        return
    g = r.value
    if len(repr(lines)) % 3 == 0:
        try:
            return _run_1to2(case, ctx, g)
        finally:
            edited_then_converted_1to2(ctx, g, lines, vlevel)
    return _run_1to2(case, ctx, g)


def _run_1to2(case, ctx, g):
    lines, vlevel = case["lines"], case["vlevel"]
    recs1 = [S.parse_line(l, "gfa1") for l in lines]
    lens = CV.seg_lengths(recs1, "gfa1")
    c = call(ctx, "to_gfa2_s", g.to_gfa2_s)
    ctx.count("conversions_1to2")
    if not c.ok:
        ctx.violation("to_gfa2-raises/%s" % c.cls(), "%r: %s" % (lines, str(c.exc)[:300]))
        return
    out = S.split_doc(c.value)
    recs2 = [S.parse_line(l, "gfa2") for l in out]
    if not check_valid_target(ctx, out, "gfa2", "1to2"):
        return
    if not dollar_rule(ctx, out, "1to2"):
        return
    # segments
    seg2 = {x.pos[0]: x for x in recs2 if x.rt == "S"}
    for x in recs1:
        if x.rt == "S":
            y = seg2.get(x.pos[0])
            if y is None or y.pos[2] != x.pos[1] or int(y.pos[1]) != lens[x.pos[0]] or \
                    tags_without(x, ("LN",)) != tags_without(y, ()):
                ctx.violation("segment-mistranslated/1to2", "%r -> %r" % (x.text(), y.text() if y else None))
                return
    # edges: semantic normal form
    want = []
    for x in recs1:
        if x.rt == "L":
            want.append((CV.e_nf(CV.e_of_link(x, lens)), tags_without(x, ("ID",))))
        elif x.rt == "C":
            if x.pos[1] == "-":
                ctx.count("containments_with_reversed_container_skipped")
                continue
            want.append((CV.e_nf(CV.e_of_containment(x, lens)), tags_without(x, ("ID",))))
    got = []
    skipC = sum(1 for x in recs1 if x.rt == "C" and x.pos[1] == "-")
    for y in recs2:
        if y.rt == "E":
            got.append((CV.e_nf(CV.e_tuple(y)), tags_without(y, ())))
    for w in want:
        if w not in got:
            kind = "alignment" if any(w[0][:6] == g_[0][:6] for g_ in got) else "interval-or-pair"
            ctx.violation("edge-mistranslated/1to2/%s" % kind, "expected (normal form) %r not among %r\n document %r\n converted %r"
                          % (w, got, lines, out))
            return
        got.remove(w)
    if len(got) != skipC:
        ctx.violation("edge-invented/1to2", "%r; document %r" % (got, lines))
        return
    ctx.count("edges_compared", len(want))
    # identifiers of named edges are kept
    ids1 = sorted(t[1] for x in recs1 if x.rt in "LC" for t in [x.tag("ID")] if t)
    ids2 = [y.pos[0] for y in recs2 if y.rt == "E"]
    for i in ids1:
        if i not in ids2:
            ctx.violation("edge-identifier-lost/1to2", "%r not among %r" % (i, ids2))
            return
    # paths: same oriented segments through the same edges
    for x in recs1:
        if x.rt == "P":
            ys = [y for y in recs2 if y.rt == "O" and y.pos[0] == x.pos[0]]
            if len(ys) != 1:
                ctx.violation("path-lost/1to2", "%r; converted %r" % (x.text(), out))
                return
            items = ys[0].pos[1].split(" ")
            segs = items[0::2]
            wsegs = x.pos[1].split(",")
            if len(x.pos[2].split(",")) == len(wsegs) and (len(wsegs) > 1 or x.pos[2] != "*"):
                wsegs = wsegs + [wsegs[0]]          # a circular path returns to its first segment
            if segs != wsegs:
                ctx.violation("path-segments-differ/1to2", "%r -> %r" % (x.text(), ys[0].text()))
                return
            # the O line must resolve, in the converted graph, to a walk over the same oriented segments
            g2 = call(ctx, "Gfa(converted)", gfapy.Gfa, list(out), version="gfa2")
            if g2.ok:
                cp = call(ctx, "captured_path", lambda: g2.value.line(x.pos[0]).captured_path)
                if not cp.ok:
                    ctx.violation("converted-path-not-resolvable/%s" % cp.cls(), "%r -> %r: %s" % (x.text(), ys[0].text(), str(cp.exc)[:200]))
                    return
                gsegs = [o.name + o.orient for o in cp.value if o.line.record_type == "S"]
                want_segs = x.pos[1].split(",")
                nov = len(x.pos[2].split(","))
                if nov == len(want_segs) and (len(want_segs) > 1 or x.pos[2] != "*"):
                    want_segs = want_segs + [want_segs[0]]
                if gsegs != want_segs:
                    ctx.violation("converted-path-visits-other-segments", "%r -> %r resolves to %r" % (x.text(), ys[0].text(), gsegs))
                    return
            ctx.count("paths_compared")
    # header, comments
    vn = [y for y in recs2 if y.rt == "H" and y.tag("VN")]
    if any(x.rt == "H" and x.tag("VN") for x in recs1) and (len(vn) != 1 or vn[0].tag("VN")[1] != "2.0"):
        ctx.violation("header-version-not-converted/1to2", repr(out))
        return
    # there and back
    g2 = call(ctx, "to_gfa2", g.to_gfa2)
    if not g2.ok:
        ctx.violation("to_gfa2-raises/%s" % g2.cls(), "%r: %s" % (lines, str(g2.exc)[:300]))
        return
    back = call(ctx, "to_gfa1_s", g2.value.to_gfa1_s)
    ctx.count("round_trips")
    if not back.ok:
        ctx.violation("round-trip-raises/1to2to1/%s" % back.cls(), "%r: %s" % (lines, str(back.exc)[:300]))
        return
    b = S.split_doc(back.value)
    if not check_valid_target(ctx, b, "gfa1", "1to2to1"):
        return

    def norm1(ls):
        out_ = []
        for l in ls:
            rr = S.parse_line(l, "gfa1")
            if rr.rt == "H":
                for t in rr.tags:
                    out_.append(("H", (), frozenset([S.canon_tag(*t)])))
                continue
            rr.tags = [t for t in rr.tags if t[0] not in ("ID", "LN")]
            if rr.rt == "P":
                # overlaps may be spelled explicitly or as '*'
                pass
            out_.append(S.canon_rec(rr))
        return sorted(out_, key=repr)
    skip = [l for l in lines if l.startswith("C") and l.split("\t")[2] == "-"]
    a1 = norm1([l for l in lines if l not in skip])
    b1 = norm1(b)
    for rec in a1:
        if rec not in b1 and rec[0] != "P":
            ctx.violation("round-trip-differs/1to2to1/%s" % rec[0], "lost or changed %r\n before %r\n after %r" % (rec, lines, b))
            return
    if any(S.cigar_complement(l.split("\t")[5]) not in (l.split("\t")[5], "".join(reversed(l.split("\t")[5])))
           for l in lines if l.startswith("L")):
        ctx.nontriv(lines)
    if case["cli"]:
        run_cli(ctx, lines, out)
    ctx.sample({"version": "gfa1", "lines": lines, "converted": out})


def edited_then_converted(ctx, g, lines, vlevel):
    """an E line is disconnected, given other intervals and added again (the documented way to edit a
    read-only field); the conversion of the Gfa must then equal the conversion of a Gfa parsed afresh
    from what the Gfa writes: it depends on the content only, not on what was asked before."""
    import random
    rng = random.Random(len(repr(lines)) * 31 + vlevel)
    es = [l for l in g.lines if l.record_type == "E" and not l.virtual]
    if not es:
        return
    # (every edge has been classified by now: the first conversion asked for it)
    e = rng.choice(es)
    side = rng.choice([1, 2])
    seg = (e.sid1 if side == 1 else e.sid2).line
    try:
        slen = int(seg.slen)
    except Exception:
        return
    if slen < 1:
        return
    b, en, _k = G.interval(rng, slen)

    def edit():
        e.disconnect()
        e.set("beg%d" % side, b)
        e.set("end%d" % side, en)
        e.set("alignment", "*")
        g.add_line(e)
    rr = call(ctx, "disconnect;edit;add_line(same object)", edit)
    if not rr.ok:
        return
    ctx.count("conversions_after_edit")
    text = [O.safe_str(l) for l in g.lines if not l.virtual]
    c1 = call(ctx, "to_gfa1_s (edited Gfa)", g.to_gfa1_s)
    fr = call(ctx, "Gfa(text of the edited Gfa)", gfapy.Gfa, list(text), version="gfa2", vlevel=vlevel)
    if not fr.ok:
        return
    c2 = call(ctx, "to_gfa1_s (fresh parse)", fr.value.to_gfa1_s)
    if c1.ok != c2.ok:
        ctx.violation("conversion-depends-on-history/%s-vs-%s" % (c1.cls(), c2.cls()),
                      "after re-adding the edited %r: the Gfa converts -> %s, a fresh parse of its text -> %s\n text %r"
                      % (O.safe_str(e), c1.cls() if not c1.ok else "ok", c2.cls() if not c2.ok else "ok", text))
        return
    if c1.ok and not isinstance(c1.value, str):
        raise RuntimeError("to_gfa1_s returned %r" % (c1.value,))
    if c1.ok:
        strip = lambda d: sorted([(x[0], tuple(x[1]) if len(x) > 1 else (),
                                   tuple(sorted((t for t in (x[2] if len(x) > 2 else ()) if t[0] != "ID"), key=repr)))
                                  for x in d], key=repr)
        a = strip(S.canon_doc(S.split_doc(c1.value), "gfa1"))
        bq = strip(S.canon_doc(S.split_doc(c2.value), "gfa1"))
        if a != bq:
            ma = [x for x in a if x not in bq]
            mb = [x for x in bq if x not in a]
            ctx.violation("conversion-depends-on-history/%s" % ((ma or mb)[0][0]),
                          "after re-adding the edited %r: edited Gfa gives %r, fresh parse gives %r\n text %r"
                          % (O.safe_str(e), ma[:3], mb[:3], text))


def run_2to1(case, ctx):
    lines, vlevel = case["lines"], case["vlevel"]
    r = build(ctx, lines, "gfa2", vlevel)
    if not r.ok:
        ctx.violation("valid-document-refused/%s" % r.cls(), "%r: %s" % (lines, str(r.exc)[:200]), prop="C01")
        return
    g = r.value
    if len(repr(lines)) % 3 == 0:
        # (on a third of the graphs, at the end: the edit destroys the graph for the other clauses)
        try:
            return _run_2to1(case, ctx, g)
        finally:
            edited_then_converted(ctx, g, lines, vlevel)
    return _run_2to1(case, ctx, g)


def _run_2to1(case, ctx, g):
    lines, vlevel = case["lines"], case["vlevel"]
    recs2 = [S.parse_line(l, "gfa2") for l in lines]
    lens = CV.seg_lengths(recs2, "gfa2")
    c = call(ctx, "to_gfa1_s", g.to_gfa1_s)
    ctx.count("conversions_2to1")
    if not c.ok:
        ctx.violation("to_gfa1-raises/%s" % c.cls(), "%r: %s" % (lines, str(c.exc)[:300]))
        return
    out = S.split_doc(c.value)
    recs1 = [S.parse_line(l, "gfa1") for l in out]
    if not check_valid_target(ctx, out, "gfa1", "2to1"):
        return
    seg1 = {x.pos[0]: x for x in recs1 if x.rt == "S"}
    for y in recs2:
        if y.rt == "S":
            x = seg1.get(y.pos[0])
            ln = x.tag("LN") if x else None
            if x is None or x.pos[1] != y.pos[2] or ln is None or int(ln[1]) != int(y.pos[1]) or \
                    tags_without(x, ("LN",)) != tags_without(y, ()):
                ctx.violation("segment-mistranslated/2to1", "%r -> %r" % (y.text(), x.text() if x else None))
                return
    lens1 = CV.seg_lengths(recs1, "gfa1")
    want = []
    for y in recs2:
        if y.rt == "E":
            k = E.classify_edge(y)["kind"]
            if k == "I":
                continue
            if y.pos[7] != "*" and ("," in y.pos[7] or y.pos[7].isdigit()):
                continue
            want.append((y, k))
    got = [x for x in recs1 if x.rt in ("L", "C")]
    if len(got) != len(want):
        ctx.violation("edge-count-differs/2to1", "%d dovetail/containment E lines, %d L/C lines\n document %r\n converted %r"
                      % (len(want), len(got), lines, out))
        return
    gnf = []
    for x in got:
        if x.pos[4 if x.rt == "L" else 5] == "*":
            e = None
        else:
            e = CV.e_of_link(x, lens1) if x.rt == "L" else CV.e_of_containment(x, lens1)
        gnf.append((x, CV.e_nf(e) if e else None))
    for y, k in want:
        if y.pos[7] == "*":
            # only the oriented pair and the record type can be compared
            pair = frozenset([(y.pos[1][:-1], y.pos[1][-1]), (y.pos[2][:-1], y.pos[2][-1])])
            ipair = frozenset((a, S.inv(o)) for a, o in pair)
            ok = False
            for x, _ in gnf:
                xp = frozenset([(x.pos[0], x.pos[1]), (x.pos[2], x.pos[3])])
                if x.rt == k and xp in (pair, ipair):
                    ok = True
            if not ok:
                ctx.violation("edge-mistranslated/2to1/pair", "%r has no %s counterpart among %r" % (y.text(), k, [x.text() for x in got]))
                return
            continue
        if k == "C":
            # container orientation '-' after conversion: positions UNSPECIFIED
            cands = [x for x, _ in gnf if x.rt == "C"]
            if any(x.pos[1] == "-" for x in cands):
                ctx.count("containments_with_reversed_container_skipped")
                continue
        nf = CV.e_nf(CV.e_tuple(y))
        if not any(n == nf and x.rt == k for x, n in gnf):
            cl = [n for x, n in gnf if n and n[:4] == nf[:4]]
            kind = "alignment" if any(n[:6] == nf[:6] for n in cl) else "interval-or-pair"
            ctx.violation("edge-mistranslated/2to1/%s/%s" % (k, kind), "%r (normal form %r) not among the L/C lines %r (normal forms %r)"
                          % (y.text(), nf, [x.text() for x in got], [n for _, n in gnf]))
            return
        ctx.count("edges_compared")
    # records without counterpart are dropped, never mistranslated
    allowed = {"H", "#", "S", "L", "C", "P"}
    for x in recs1:
        if x.rt not in allowed:
            ctx.violation("record-without-counterpart-translated/%s" % x.rt, x.text())
            return
    if any(x.rt == "P" for x in recs1) and not any(y.rt == "O" for y in recs2):
        ctx.violation("path-invented/2to1", repr(out))
        return
    # line-level conversion of records without counterpart must be refused with an error
    for l in g.lines:
        if l.record_type in ("G", "F", "U") or (l.record_type == "E" and l.is_internal()):
            rr = call(ctx, "line.to_gfa1", l.to_gfa1)
            ctx.count("line_level_refusals")
            if rr.ok:
                ctx.violation("line-without-counterpart-converted/%s" % l.record_type, "%r -> %r" % (str(l), str(rr.value)))
                return
    # there and back (only if every converted edge has a specified overlap: GFA1 graphs with '*'
    # overlaps are outside the claim for GFA1 -> GFA2)
    if any(x.pos[4 if x.rt == "L" else 5] == "*" for x in got):
        ctx.count("round_trips_skipped_unspecified_overlap")
        ctx.sample({"version": "gfa2", "lines": lines, "converted": out})
        return
    g1 = call(ctx, "to_gfa1", g.to_gfa1)
    if not g1.ok:
        ctx.violation("to_gfa1-raises/%s" % g1.cls(), "%r: %s" % (lines, str(g1.exc)[:300]))
        return
    back = call(ctx, "to_gfa2_s", g1.value.to_gfa2_s)
    ctx.count("round_trips")
    if not back.ok:
        ctx.violation("round-trip-raises/2to1to2/%s" % back.cls(), "%r: %s" % (lines, str(back.exc)[:300]))
        return
    b = S.split_doc(back.value)
    if not check_valid_target(ctx, b, "gfa2", "2to1to2"):
        return
    if not dollar_rule(ctx, b, "2to1to2"):
        return
    brecs = [S.parse_line(l, "gfa2") for l in b]
    bnf = [CV.e_nf(CV.e_tuple(y)) for y in brecs if y.rt == "E"]
    for y, k in want:
        if y.pos[7] == "*":
            continue
        if k == "C" and any(x.rt == "C" and x.pos[1] == "-" for x in recs1):
            continue
        if CV.e_nf(CV.e_tuple(y)) not in bnf:
            ctx.violation("round-trip-differs/2to1to2/E", "%r lost or changed; after %r" % (y.text(), b))
            return
    if any(y.rt == "E" and y.pos[7] not in ("*",) and CV.swap_id(y.pos[7]) != y.pos[7] for y in recs2):
        ctx.nontriv(lines)
    ctx.sample({"version": "gfa2", "lines": lines, "converted": out})


def run_cli(ctx, lines, want_out):
    root = os.environ.get("GFAPY_ROOT", "/repo")
    fn = os.path.join(_tmp, "cli.gfa")
    with open(fn, "w") as f:
        f.write("\n".join(lines) + "\n")
    try:
        p = subprocess.run([sys.executable, "-B", os.path.join(root, "bin", "gfapy-convert"), fn],
                           capture_output=True, text=True, timeout=120)
    except subprocess.TimeoutExpired:
        ctx.inconc("gfapy-convert watchdog")
        return
    ctx.count("cli_runs")
    if p.returncode != 0:
        ctx.violation("cli-convert-fails", p.stderr[-300:])
        return
    got = S.canon_doc(S.split_doc(p.stdout), "gfa2")
    want = S.canon_doc(want_out, "gfa2")
    strip = lambda d: [x for x in d if x[0] != "E"] + [(x[0], x[1][1:], x[2]) for x in d if x[0] == "E"]
    if sorted(strip(got), key=repr) != sorted(strip(want), key=repr):
        ctx.violation("cli-convert-differs", "cli %r\n api %r" % (p.stdout, want_out))
