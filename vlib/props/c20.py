"""C20 — tag values set through the API are written and read back unchanged."""
import math
import random
import gfapy
from ..gen import values as V
from ..spec import grammar as S
from ..mon import hooks
from ..mon.client import call

ID = "C20"
CARRIERS = [("S\tA\t*", None), ("L\tA\t+\tB\t-\t*", None), ("E\t*\tA+\tB-\t0\t1\t0\t1\t*", None), ("H", None),
            ("S\tA\t10\t*", None)]
# (carrier text, version, lines it needs in a Gfa, identifier) -- the carriers above stand alone;
# these are also connected to a Gfa, and then live through a later operation
CONNECTED = [
    ("S\tA\t*", "gfa1", [], "A"),
    ("L\tA\t+\tB\t-\t*", "gfa1", ["S\tA\t*", "S\tB\t*"], None),
    ("C\tA\t+\tB\t-\t0\t*", "gfa1", ["S\tA\t*", "S\tB\t*"], None),
    ("P\tp1\tA+,B-\t*", "gfa1", ["S\tA\t*", "S\tB\t*", "L\tA\t+\tB\t-\t*"], "p1"),
    ("S\tA\t10\t*", "gfa2", [], "A"),
    ("E\te1\tA+\tB-\t5\t10$\t0\t5\t*", "gfa2", ["S\tA\t10\t*", "S\tB\t10\t*"], "e1"),
    ("F\tA\tread+\t0\t5\t0\t5\t*", "gfa2", ["S\tA\t10\t*"], None),
    ("G\tg1\tA+\tB-\t5\t*", "gfa2", ["S\tA\t10\t*", "S\tB\t10\t*"], "g1"),
    ("O\to1\tA+ B-", "gfa2", ["S\tA\t10\t*", "S\tB\t10\t*", "E\te1\tA+\tB-\t5\t10$\t0\t5\t*"], "o1"),
    ("U\tu1\tA B", "gfa2", ["S\tA\t10\t*", "S\tB\t10\t*"], "u1"),
    ("X\tabc\tdef", "gfa2", [], None),
]
DEFAULT_DT = {"int": "i", "float": "f", "str": "Z", "char": "Z", "json": "J", "intarray": "B", "floatarray": "B",
              "bytes": "H", "json-ordered": "J"}
KINDS = ["int", "float", "str", "char", "json", "intarray", "floatarray", "bytes"]


def setup(ctx):
    hooks.RATE = 50


WRONG = {"int": 7, "negint": -3, "bool": True, "float": 2.5, "str": "abc", "char": "x", "digits": "12", "hex": "0A1B",
         "empty-str": "", "list-int": [1, 2], "list-float": [1.5, 2.0], "list-str": ["a"], "empty-list": [],
         "dict": {"a": 1}, "nested": [[1], {"b": None}], "tuple": (1, 2), "bytes": b"\x01\x02", "set": {1},
         "bigint": 2 ** 70, "none-in-list": [None], "bytearray": "BYTEARRAY", "numarray": "NUMARRAY", "object": "OBJECT",
         "empty-bytearray": "EMPTYBYTEARRAY", "empty-numarray": "EMPTYNUMARRAY"}


def wrong_value(name):
    if name == "bytearray":
        return gfapy.ByteArray([1, 2, 255])
    if name == "numarray":
        return gfapy.NumericArray([1, 2, 300])
    if name == "object":
        return object()
    if name == "empty-bytearray":
        return gfapy.ByteArray([])
    if name == "empty-numarray":
        return gfapy.NumericArray([])
    return WRONG[name]


HEADER_MULTI = [("A", "a", "b"), ("J", [1, 2], [3]), ("J", {"a": 1}, [1.5]), ("f", 1.5, 2.5), ("f", 3, 4), ("Z", "x y", "z"),
                ("i", 5, -7), ("B", [1, 2], [300, 2]), ("B", [1.5], [2.0, 3.0])]


def run_header_multi(case, ctx):
    """a header tag defined several times (header.add with a declared datatype): each value is
    written under the declared datatype, by the header line itself and by the Gfa."""
    dt, v1, v2 = HEADER_MULTI[case["cell"]]
    tag = case["tag"]
    g = gfapy.Gfa(vlevel=case["vlevel"])
    for v in (v1, v2):
        r = call(ctx, "header.add(tag, value, datatype)", g.header.add, tag, v, dt)
        if not r.ok:
            ctx.violation("valid-assignment-refused/header-multi/%s/%s" % (dt, r.cls()), "header.add(%r, %r, %r): %s"
                          % (tag, v, dt, str(r.exc)[:200]))
            return
    ctx.count("multi_valued_header_tags")
    ctx.nontriv(["header-multi", dt, case["vlevel"]])
    fs = call(ctx, "header.field_to_s(tag, tag=True)", g.header.field_to_s, tag, True)
    hs = call(ctx, "str(header)", str, g.header)
    gs = call(ctx, "str(gfa)", str, g)
    for what, out in (("field_to_s", fs), ("str(header)", hs), ("str(gfa)", gs)):
        if not out.ok:
            ctx.violation("multi-valued-header-not-writable/%s/%s" % (dt, out.cls()), "%s of %s:%s %r, %r" % (what, tag, dt, v1, v2))
            return
        parts = [x for l in out.value.split("\n") for x in l.split("\t") if x.startswith(tag + ":")]
        if len(parts) != 2 or any(not S.TAGRE.fullmatch(x) or S.TAGRE.fullmatch(x).group(2) != dt or
                                  S.tag_value_verdict(dt, S.TAGRE.fullmatch(x).group(3))[0] == S.INVALID for x in parts):
            ctx.violation("multi-valued-header-written-wrong/%s/%s" % (what, dt),
                          "%s:%s with the values %r, %r is written %r by %s" % (tag, dt, v1, v2, out.value, what))
            return


def cases(rng, tier, shard, nshards):
    while True:
        if rng.random() < 0.02:
            yield {"kind": "header-multi", "cell": rng.randrange(len(HEADER_MULTI)), "vlevel": rng.choice([0, 1, 2, 3]),
                   "tag": V.tagname(rng), "good": None}
            continue
        if rng.random() < 0.12:
            # a Python value of any class offered to each declared datatype
            yield {"kind": "anyclass", "value": rng.choice(sorted(WRONG)), "dt": rng.choice("AifZJHB"), "good": None,
                   "how": rng.choice(["set", "attr"]), "carrier": rng.randrange(len(CARRIERS)),
                   "vlevel": rng.choice([0, 1, 2, 3]), "tag": V.tagname(rng)}
            continue
        kind = rng.choice(KINDS)
        good = rng.random() < 0.6
        if good:
            v = V.py_value(rng, kind)
            if kind == "intarray" and V.b_subtype(v) is None:
                good = False
        else:
            v, kind = bad_value(rng)
        sib = None
        if good and rng.random() < 0.25:
            # a clone of the line got a value of another class under the same tag name before
            k2 = rng.choice([k for k in KINDS if k != kind])
            sib = {"kind": k2, "value": V.py_value(rng, k2)}
        if good and kind == "json" and isinstance(v, dict) and rng.random() < 0.4:
            kind = "json-ordered"       # (the same value as a collections.OrderedDict: a dict like any other)
        c = {"kind": kind, "value": v, "good": good, "how": rng.choice(["set", "attr", "datatype"]),
             "carrier": rng.randrange(len(CARRIERS)), "vlevel": rng.choice([0, 1, 2, 3]),
             "tag": V.tagname(rng), "sibling": sib}
        if good and sib is None and rng.random() < 0.2:
            # the tag existed before with a value of another class and was removed (documented:
            # delete(), or a value of None)
            k2 = rng.choice([k for k in KINDS if k != kind])
            c["removed_before"] = {"kind": k2, "value": V.py_value(rng, k2),
                                   "by": rng.choice(["set-none", "attr-none", "delete"])}
        if good and c["vlevel"] == 3 and sib is None and "removed_before" not in c and rng.random() < 0.3:
            # a first assignment of the new tag which level 3 refuses (the value cannot be represented
            # in the default datatype of its class): the tag is still a new tag for the next value
            c["refused_before"] = rng.choice([["a\tb", "str"], ["inf", "float"], ["nan", "float"], [[2 ** 32, 1], "intarray"],
                                              [[-2 ** 31 - 1], "intarray"], ["x\ny", "str"]])
        if rng.random() < 0.3:
            c["connected"] = rng.randrange(len(CONNECTED))
            c["post"] = rng.choice(["none", "rename", "group-line", "group-line", "reparse", "readd"])
            c["when"] = rng.choice(["before-connect", "after-connect"])
        yield c


def bad_value(rng):
    """values the datatype cannot represent: (value, kind)."""
    k = rng.randrange(9)
    if k == 0:
        return rng.choice(["a\tb", "a\nb", "x\n", "é", "\x7f", "", "a\x00"]), "str"
    if k == 1:
        return rng.choice(["inf", "-inf", "nan"]), "float"
    if k == 2:
        return rng.choice([[1, 2.5], [2 ** 32, 1], [-2 ** 31 - 1], [-1, 2 ** 31], [1, "a"], [None], []]), "intarray"
    if k == 3:
        return rng.choice([[256], [-1], [1, 300], [], []]), "bytes"
    if k == 4:
        # (JSON escapes non-ASCII and control characters: those values are representable;
        #  what J cannot hold is a non-container or a non-serialisable object)
        return rng.choice([5, "text", 1.5, True, [float("nan")], {"a": [float("inf")]}, [1, float("-inf")]]), "json"
    if k == 5:
        return rng.choice(["ab", "", " ", "\t", "x\n", "\n", "x\r"]), "char"
    if k == 6:
        return rng.choice([[1, 2.5], [None], ["a"]]), "floatarray"
    if k == 7:
        return rng.choice([[1.5, "x"], [float("inf")]]), "floatarray"
    return rng.choice(["1.5", "abc", ""]), "intstring"


def materialise(kind, v):
    if kind == "json-ordered":
        import collections
        return collections.OrderedDict(v)
    if kind == "float" and isinstance(v, str):
        return float(v)
    if kind == "bytes":
        try:
            return gfapy.ByteArray(v)
        except gfapy.Error:
            return None
    if kind == "intarray" and v == []:
        return gfapy.NumericArray([])       # (a plain empty list is a JSON value)
    return v


def equal(kind, a, b):
    if kind in ("float",):
        return isinstance(b, float) and (a == b or (a != a and b != b)) and math.copysign(1, a) == math.copysign(1, b)
    if kind == "floatarray":
        return list(a) == list(b) and all(isinstance(x, float) for x in b)
    if kind == "intarray":
        return list(a) == list(b) and all(isinstance(x, int) for x in b)
    if kind == "bytes":
        return bytes(a) == bytes(b)
    return a == b and type(a) == type(b) if kind in ("int", "str", "char") else a == b


def run_anyclass(case, ctx):
    """every outcome is fine but two: an exception which is not a gfapy.Error, and a value which
    passes validation and is then written as text that does not match the grammar of the datatype
    (or that cannot be read back)."""
    vlevel, tag, dt = case["vlevel"], case["tag"], case["dt"]
    line = gfapy.Line(CARRIERS[case["carrier"]][0], vlevel=vlevel)
    v = wrong_value(case["value"])
    cell = "%s<-%s" % (dt, case["value"])
    ctx.add("anyclass_cells", cell)
    ctx.count("anyclass_assignments")
    ctx.nontriv(["anyclass", cell, vlevel, case["how"], case["carrier"]])

    def assign():
        line.set_datatype(tag, dt)
        if case["how"] == "attr":
            setattr(line, tag, v)
        else:
            line.set(tag, v)
    steps = [("set", assign), ("validate_field", lambda: line.validate_field(tag)), ("validate", line.validate),
             ("field_to_s", lambda: line.field_to_s(tag, True)), ("str", lambda: str(line))]
    written = None
    for name, fn in steps:
        r = call(ctx, "%s (value of class %s for %s)" % (name, case["value"], dt), fn)
        if r.kind == "foreign":
            ctx.violation("foreign-exception/%s/%s/%s" % (name, dt, r.cls()),
                          "%s at level %d: %s raised %s: %s" % (cell, vlevel, name, r.cls(), str(r.exc)[:200]))
            return
        if not r.ok:
            ctx.count("anyclass_reported")
            return
        if name == "field_to_s":
            written = r.value
    ctx.count("anyclass_accepted")
    m = S.TAGRE.fullmatch(written or "")
    if not m or m.group(1) != tag or S.tag_value_verdict(m.group(2), m.group(3))[0] == S.INVALID:
        ctx.violation("unvalidated-value-written-malformed/%s/%s" % (dt, case["value"]),
                      "%s at level %d passes validation and is written as %r" % (cell, vlevel, written))
        return
    pr = call(ctx, "Line(str(line))", gfapy.Line, str(line), vlevel=1)
    if not pr.ok:
        ctx.violation("written-line-unparsable/anyclass/%s" % pr.cls(), "%s: %r" % (cell, str(line)))


def _connect(ctx, line, ver, base, vlevel):
    g = gfapy.Gfa(version=ver, vlevel=vlevel)
    for b in base:
        g.add_line(b)
    r = call(ctx, "add_line(Line)", g.add_line, line)
    if not r.ok:
        ctx.violation("carrier-refused/%s" % r.cls(), "%r: %s" % (str(line), str(r.exc)[:200]), prop="C01")
        return None
    return g


def _after_connected(case, ctx, line, g, kind, v, tag, want_dt, cell):
    """the line carrying the tag becomes (or is) a line of a Gfa and lives through a later
    operation: the tag is still written in its datatype and read back equal."""
    text, ver, base, ident = CONNECTED[case["connected"]]
    post = case["post"]
    if g is None:
        g = _connect(ctx, line, ver, base, case["vlevel"])
        if g is None:
            return
    cur = line
    rt = text.split("\t")[0]
    if post == "rename" and ident is not None:
        r = call(ctx, "rename", lambda: setattr(line, "name", "zq9"))
        if not r.ok:
            return
    elif post == "group-line" and rt in ("O", "U"):
        more = "O\to1\tB-" if rt == "O" else "U\tu1\tB"
        r = call(ctx, "add_line(further line of the group)", g.add_line, more)
        if not r.ok:
            ctx.violation("group-line-refused/%s" % r.cls(), "%r then %r: %s" % (str(line), more, str(r.exc)[:200]), prop="C17")
            return
        cur = g.line(ident)
    elif post == "readd":
        r1 = call(ctx, "disconnect", line.disconnect)
        r2 = call(ctx, "add_line(Line)", g.add_line, line)
        if not (r1.ok and r2.ok):
            return
    elif post == "reparse":
        w = call(ctx, "str(Gfa)", str, g)
        if not w.ok:
            ctx.violation("gfa-with-valid-tag-not-writable/%s" % kind, "%s: %s" % (cell, w.cls()))
            return
        r = call(ctx, "Gfa(str(Gfa))", gfapy.Gfa, w.value, version=ver, vlevel=max(1, case["vlevel"]))
        if not r.ok:
            ctx.violation("written-gfa-unparsable/%s/%s" % (kind, r.cls()), "%s: %r" % (cell, w.value))
            return
        cands = [l for l in r.value.lines if l.record_type == rt and tag in l.tagnames]
        if len(cands) != 1:
            ctx.violation("tag-lost-on-write/%s" % kind, "%s: %r" % (cell, w.value))
            return
        cur = cands[0]
    ctx.count("connected_read_backs")
    ctx.add("connected_cells", "%s/%s/%s" % (rt, post, case["when"]))
    if cur is None:
        ctx.violation("carrier-lost/%s" % post, cell)
        return
    back = call(ctx, "get", cur.get, tag)
    bdt = call(ctx, "get_datatype", cur.get_datatype, tag)
    fs = call(ctx, "field_to_s", cur.field_to_s, tag, True)
    if not back.ok or not equal(kind, v, back.value):
        ctx.violation("read-back-differs/%s/after-%s" % (kind, post), "%s on %s: set %r, read back %r"
                      % (cell, rt, v, back.value if back.ok else back.cls()))
        return
    if not bdt.ok or bdt.value != want_dt:
        ctx.violation("datatype-changed/%s/after-%s" % (kind, post), "%s on %s: %r -> %r (written %r)"
                      % (cell, rt, want_dt, bdt.value if bdt.ok else bdt.cls(), fs.value if fs.ok else fs.cls()))
        return
    m = S.TAGRE.fullmatch(fs.value) if fs.ok else None
    if not m or m.group(2) != want_dt or S.tag_value_verdict(m.group(2), m.group(3))[0] == S.INVALID:
        ctx.violation("written-tag-malformed/%s/after-%s" % (kind, post), "%s on %s: written %r"
                      % (cell, rt, fs.value if fs.ok else fs.cls()))


def run(case, ctx):
    if case["kind"] == "anyclass":
        return run_anyclass(case, ctx)
    if case["kind"] == "header-multi":
        return run_header_multi(case, ctx)
    kind, good, vlevel, tag = case["kind"], case["good"], case["vlevel"], case["tag"]
    text, _ = CARRIERS[case["carrier"]]
    g = None
    if case.get("connected") is not None:
        text, ver, base, ident = CONNECTED[case["connected"]]
        line = gfapy.Line(text, vlevel=vlevel, version=ver)
        if case["when"] == "after-connect":
            g = _connect(ctx, line, ver, base, vlevel)
            if g is None:
                return
    else:
        line = gfapy.Line(text, vlevel=vlevel)
    v = materialise(kind, case["value"])
    if v is None:
        ctx.count("rejected_at_value_construction")
        return
    if case.get("sibling"):
        sv = materialise(case["sibling"]["kind"], case["sibling"]["value"])
        if sv is not None:
            sib = call(ctx, "clone", line.clone)
            if sib.ok:
                call(ctx, "set(tag) on a clone", sib.value.set, tag, sv)
                ctx.count("sibling_assignments")
    if case.get("removed_before"):
        rb = case["removed_before"]
        pv = materialise(rb["kind"], rb["value"])
        if pv is not None:
            r0 = call(ctx, "set(tag) earlier value", line.set, tag, pv)
            if r0.ok:
                if rb["by"] == "delete":
                    r1 = call(ctx, "delete(tag)", line.delete, tag)
                elif rb["by"] == "set-none":
                    r1 = call(ctx, "set(tag, None)", line.set, tag, None)
                else:
                    r1 = call(ctx, "tag = None", lambda: setattr(line, tag, None))
                ctx.count("removed_then_assigned")
                if not r1.ok or tag in line.tagnames or line.get(tag) is not None:
                    ctx.violation("tag-not-removed/%s" % rb["by"], "%r after %s of %s" % (str(line), rb["by"], tag))
                    return
    if case.get("refused_before"):
        bv, bk = case["refused_before"]
        if bk != kind:
            r0 = call(ctx, "set(tag) value refused at level 3", line.set, tag, materialise(bk, bv))
            if r0.ok:
                ctx.count("refused_before_not_refused")
                return
            ctx.count("refused_then_assigned")
            left = call(ctx, "get_datatype", line.get_datatype, tag)
            if tag in line.tagnames or (left.ok and left.value is not None):
                ctx.violation("refused-assignment-leaves-tag/%s" % bk, "set(%r, %r) refused at level 3; tagnames %r, datatype %r"
                              % (tag, bv, line.tagnames, left.value if left.ok else left.cls()))
                return
    dt_forced = None
    how = case["how"]
    if kind == "char":
        how = "datatype"
        dt_forced = "A"
    elif kind == "intstring":
        how = "datatype"
        dt_forced = "i"
    elif not good and kind in ("intarray", "floatarray", "json") and how != "datatype":
        # the value is offered for the datatype it cannot be represented in
        how = "datatype"
        dt_forced = DEFAULT_DT[kind]
    elif how == "datatype":
        dt_forced = DEFAULT_DT[kind]
    if good and kind == "json" and isinstance(v, list) and v and \
            (all(isinstance(e, int) for e in v) or all(isinstance(e, float) for e in v)):
        # a non-empty list of numbers defaults to B (documented); as J it must be declared
        how = "datatype"
        dt_forced = "J"

    def assign():
        if dt_forced:
            line.set_datatype(tag, dt_forced)
        if how == "attr":
            setattr(line, tag, v)
        else:
            line.set(tag, v)
    r = call(ctx, "set(tag)", assign)
    ctx.count("assignments")
    ctx.add("kinds", "%s/%s" % (kind, "good" if good else "bad"))
    cell = "%s/%s/v%d" % (kind, how, vlevel)
    if good:
        ctx.nontriv([kind, repr(case["value"]), how, vlevel, case["carrier"]])
        if not r.ok:
            ctx.violation("valid-assignment-refused/%s/%s" % (kind, r.cls()), "%s: set(%r, %r): %s"
                          % (cell, tag, v, str(r.exc)[:200]),
                          prop="C18" if vlevel == 3 and not case.get("refused_before") else None)
            return
        if (len(repr(case["value"])) + vlevel) % 2:
            # read back on the very object, before anything else is asked (in half of the cases:
            # the other observations must not depend on it either)
            g0 = call(ctx, "get (same object, first read)", line.get, tag)
            ctx.count("first_reads")
            if not g0.ok or not equal(kind, v, g0.value):
                ctx.violation("first-read-differs/%s/%s" % (kind, g0.cls() if not g0.ok else "value"),
                              "%s: set %r, the first get() gives %r" % (cell, v, g0.value if g0.ok else str(g0.exc)[:200]))
                return
        dtr = call(ctx, "get_datatype", line.get_datatype, tag)
        want_dt = dt_forced or DEFAULT_DT[kind]
        if not dtr.ok or dtr.value != want_dt:
            ctx.violation("wrong-default-datatype/%s/%s" % (kind, dtr.value if dtr.ok else dtr.cls()),
                          "%s: value %r got datatype %r, documented %r" % (cell, v, dtr.value if dtr.ok else None, want_dt))
            return
        vr = call(ctx, "validate_field", line.validate_field, tag)
        if not vr.ok:
            ctx.violation("valid-value-fails-validation/%s/%s" % (kind, vr.cls()), "%s: %r: %s" % (cell, v, str(vr.exc)[:200]))
            return
        fr = call(ctx, "field_to_s", line.field_to_s, tag, True)
        if not fr.ok:
            ctx.violation("valid-value-not-writable/%s/%s" % (kind, fr.cls()), "%s: %r: %s" % (cell, v, str(fr.exc)[:200]))
            return
        t = fr.value
        m = S.TAGRE.fullmatch(t)
        if not m or m.group(1) != tag or m.group(2) != want_dt or S.tag_value_verdict(m.group(2), m.group(3))[0] == S.INVALID:
            ctx.violation("written-tag-malformed/%s/%s" % (kind, want_dt), "%s: %r written as %r" % (cell, v, t))
            return
        if want_dt == "B" and kind == "intarray":
            st = m.group(3).split(",")[0]
            if st != V.b_subtype(list(v)):
                ctx.violation("array-subtype-not-smallest/%s-vs-%s" % (st, V.b_subtype(list(v))), "%r written as %r" % (v, t))
                return
        sr = call(ctx, "str(line)", str, line)
        if not sr.ok or "# INVALID" in sr.value:
            ctx.violation("line-with-valid-tag-not-writable/%s" % kind, "%s: %r" % (cell, sr.value if sr.ok else sr.cls()))
            return
        pr = call(ctx, "Line(str(line))", gfapy.Line, sr.value, vlevel=max(vlevel, 1))
        if not pr.ok:
            ctx.violation("written-line-unparsable/%s/%s" % (kind, pr.cls()), "%s: %r: %s" % (cell, sr.value, str(pr.exc)[:200]))
            return
        back = call(ctx, "get", pr.value.get, tag)
        bdt = call(ctx, "get_datatype", pr.value.get_datatype, tag)
        ctx.count("read_backs")
        if not back.ok or not equal(kind, v, back.value):
            ctx.violation("read-back-differs/%s" % kind, "%s: set %r, written %r, read back %r"
                          % (cell, v, t, back.value if back.ok else back.cls()))
            return
        if not bdt.ok or bdt.value != want_dt:
            ctx.violation("read-back-datatype/%s" % kind, "%s: %r -> %r" % (cell, want_dt, bdt.value if bdt.ok else None))
            return
        if case.get("connected") is not None:
            _after_connected(case, ctx, line, g, kind, v, tag, want_dt, cell)
        return
    # ---- a value the datatype cannot represent
    ctx.nontriv([kind, repr(case["value"]), how, vlevel, "bad"])
    if not r.ok:
        ctx.count("bad_refused_at_assignment")
        return
    if vlevel == 3:
        ctx.violation("invalid-assignment-accepted-at-level-3/%s" % kind, "%s: set(%r, %r) did not raise" % (cell, tag, v),
                      prop="C18")
    vr = call(ctx, "validate_field", line.validate_field, tag)
    vl = call(ctx, "validate", line.validate)
    ctx.count("bad_values_validated")
    if vr.ok and vl.ok:
        ctx.violation("unrepresentable-value-passes-validation/%s/%s" % (kind, _why(case["value"])),
                      "%s: %r passes validate_field() and validate()" % (cell, v))
        return
    if vlevel >= 2:
        sr = call(ctx, "str(line)", str, line)
        if sr.ok and "# INVALID" not in sr.value:
            ctx.violation("unrepresentable-value-written/%s/%s" % (kind, _why(case["value"])),
                          "%s: %r written as %r" % (cell, v, sr.value))


def _why(v):
    if isinstance(v, str):
        if "\t" in v:
            return "tab"
        if "\n" in v:
            return "newline"
        if v == "":
            return "empty"
        if v in ("inf", "-inf", "nan"):
            return "non-finite"
        return "non-printable" if any(ord(c) < 32 or ord(c) > 126 for c in v) else "syntax"
    if isinstance(v, list):
        if not v:
            return "empty-list"
        if any(isinstance(x, float) and (x != x or x in (float("inf"), float("-inf"))) for x in v):
            return "non-finite"
        if len(set(type(x).__name__ for x in v)) > 1:
            return "mixed"
        return "out-of-range" if all(isinstance(x, int) for x in v) else "content"
    return "content"
