"""shared oracles for C11 (neighbourhoods) and C16 (components, counts): compare the real
Gfa with the text-level models of vlib/spec/edges.py."""
import gfapy
from ..spec import grammar as S
from ..spec import edges as E
from ..mon import obs as O
from ..mon.client import call


def ckey(line, version):
    return repr(S.canon_doc([O.safe_str(line)], version, split_headers=False)[0])


def rkey(rec, version):
    return repr(S.canon_doc([rec.text()], version, split_headers=False)[0])


def check_neighbourhoods(ctx, g, lines, version, prop="C11", key_suffix=""):
    """every traversal collection / predicate vs the model; returns number of violations."""
    recs = [S.parse_line(l, version) for l in lines if not l.startswith("H") and not l.startswith("#")]

    def viol(key, detail):
        ctx.violation(key + key_suffix, detail, prop=prop)
    nb = E.neighbourhoods(recs, version)
    nviol = 0
    segnames = [r.pos[0] for r in recs if r.rt == "S"]
    for sn in segnames:
        s = g.segment(sn)
        if s is None:
            viol("segment-missing", sn)
            return 1
        for c in E.COLLS:
            want = sorted(rkey(recs[i], version) for i in nb[sn][c])
            got = sorted(ckey(x, version) for x in getattr(s, c))
            ctx.count("collections_compared")
            if want != got:
                kind = _edge_kind_of(recs, nb[sn][c], got, want)
                viol("collection-differs/%s/%s" % (c, kind),
                              "segment %s, %s:\n  model: %r\n  gfapy: %r\n  document: %r" % (sn, c, want, got, lines))
                nviol += 1
        # derived answers
        for end in ("L", "R"):
            want = sorted(set(_other_seg(recs[i], sn) for i in nb[sn]["dovetails_" + end])) if False else None
        dl = [recs[i] for i in nb[sn]["dovetails_L"]]
        dr = [recs[i] for i in nb[sn]["dovetails_R"]]
        for name, rs in (("neighbours_L", dl), ("neighbours_R", dr), ("neighbours", dl + dr)):
            r = call(ctx, name, lambda: [x.name for x in getattr(s, name)])
            if not r.ok:
                viol("derived-raises/%s/%s" % (name, r.cls()), repr(lines))
                nviol += 1
                continue
            want = _neighbour_names(rs, sn, version)
            if sorted(r.value) != sorted(want) and sorted(set(r.value)) != sorted(set(want)):
                viol("derived-differs/" + name, "segment %s: model %r gfapy %r doc %r" % (sn, want, r.value, lines))
                nviol += 1
        for name, coll in (("containers", "edges_to_containers"), ("contained", "edges_to_contained")):
            r = call(ctx, name, lambda: [x.name for x in getattr(s, name)])
            want = sorted(set(_other_seg(recs[i], sn, version) for i in nb[sn][coll]))
            if not r.ok or sorted(set(r.value)) != want:
                viol("derived-differs/" + name, "segment %s: model %r gfapy %r doc %r"
                              % (sn, want, r.value if r.ok else r.cls(), lines))
                nviol += 1
    # edge predicates and ends
    ends = {i: (a, b) for a, b, i in E.dovetail_ends(recs, version)}
    by_key = {}
    for i, r in enumerate(recs):
        by_key.setdefault(rkey(r, version), []).append(i)
    for x in g.edges:
        k = ckey(x, version)
        if k not in by_key:
            continue
        i = by_key[k][0]
        r = recs[i]
        if version == "gfa2":
            kind = E.classify_edge(r)["kind"]
        else:
            kind = r.rt
        got = ("L" if x.is_dovetail() else "") + ("C" if x.is_containment() else "") + ("I" if x.is_internal() else "")
        ctx.count("edge_predicates_compared")
        if got != kind:
            viol("edge-kind-differs/%s-as-%s" % (kind, got or "none"), "%s classified %r, model %r"
                          % (O.safe_str(x), got, kind))
            nviol += 1
            continue
        if kind == "L":
            a, b = ends[i]
            fe, te = x.from_end, x.to_end
            got_ends = sorted([(fe.name, fe.end_type), (te.name, te.end_type)])
            if got_ends != sorted([a, b]):
                viol("dovetail-ends-differ", "%s: from/to ends %r, model %r" % (O.safe_str(x), got_ends, sorted([a, b])))
                nviol += 1
                continue
            for (p, q_) in ((a, b), (b, a)):
                oe = call(ctx, "other_end", x.other_end, gfapy.SegmentEnd(p[0], p[1]))
                if a == b:
                    ok = oe.ok and (oe.value.name, oe.value.end_type) == a
                else:
                    ok = oe.ok and (oe.value.name, oe.value.end_type) == q_
                if not ok:
                    viol("other_end-wrong", "%s: other_end(%r) = %r, model %r"
                                  % (O.safe_str(x), p, (oe.value.name, oe.value.end_type) if oe.ok else oe.cls(), q_))
                    nviol += 1
            for (p, q_) in ((a[0], b[0]), (b[0], a[0])):
                # (documented argument: "segment name or instance")
                for how, arg in (("", g.segment(p)), ("/by-name", p)):
                    oth = call(ctx, "other", x.other, arg)
                    ctx.count("other_calls" + how)
                    if not oth.ok or getattr(oth.value, "name", oth.value) not in (q_, p if a[0] == b[0] else q_):
                        viol("other-wrong" + how, "%s: other(%s) = %r, model %s"
                             % (O.safe_str(x), p, getattr(oth.value, "name", oth.value) if oth.ok else oth.cls(), q_))
                        nviol += 1
    # graph-level lists
    for name, kind in (("dovetails", "L"), ("containments", "C")):
        want = sorted(rkey(r, version) for r in recs
                      if (version == "gfa1" and r.rt == kind) or
                      (version == "gfa2" and r.rt == "E" and E.classify_edge(r)["kind"] == kind))
        got = sorted(ckey(x, version) for x in getattr(g, name))
        if want != got:
            viol("gfa-%s-differs" % name, "model %r gfapy %r" % (want, got))
            nviol += 1
    return nviol


def _other_seg(r, sn, version="gfa2"):
    if r.version == "gfa1" or r.rt in ("L", "C"):
        a, b = r.pos[0], r.pos[2]
    else:
        a, b = r.pos[1][:-1], r.pos[2][:-1]
    return b if a == sn else a


def _neighbour_names(rs, sn, version):
    return [_other_seg(r, sn, version) for r in rs]


def _edge_kind_of(recs, idx, got, want):
    rts = sorted(set(recs[i].rt for i in idx))
    return "+".join(rts) or "unexpected"


def check_topology(ctx, g, lines, version, prop="C16"):
    recs = [S.parse_line(l, version) for l in lines if not l.startswith("H") and not l.startswith("#")]
    nviol = 0
    want = E.components(recs, version)
    r = call(ctx, "connected_components", g.connected_components)
    ctx.count("component_computations")
    if not r.ok:
        ctx.violation("connected_components-raises/" + r.cls(), repr(lines), prop=prop)
        return 1
    got = sorted((frozenset(s.name for s in c) for c in r.value), key=sorted)
    sizes = sum(len(c) for c in r.value)
    if got != want or sizes != sum(len(c) for c in want):
        ctx.violation("components-differ/%s" % ("split" if len(got) > len(want) else "merged" if len(got) < len(want) else "other"),
                      "model %r\n gfapy %r\n document %r" % ([sorted(c) for c in want], [sorted(c) for c in got], lines),
                      prop=prop)
        nviol += 1
    cls = {}
    for c in want:
        for s in c:
            cls[s] = c
    for sn in list(cls)[:6]:
        for arg in (sn, g.segment(sn)):
            rr = call(ctx, "segment_connected_component", g.segment_connected_component, arg)
            if not rr.ok or frozenset(s.name for s in rr.value) != cls[sn] or len(rr.value) != len(cls[sn]):
                ctx.violation("segment-component-differs", "segment %s: model %r gfapy %r doc %r"
                              % (sn, sorted(cls[sn]), sorted(s.name for s in rr.value) if rr.ok else rr.cls(), lines), prop=prop)
                nviol += 1
                break
    cnt = E.counts(recs, version)
    for k, v in cnt.items():
        rr = call(ctx, k, lambda: getattr(g, k))
        ctx.count("counters_compared")
        if not rr.ok or rr.value != v:
            ctx.violation("count-differs/" + k, "%s: model %d gfapy %r\n document %r" % (k, v, rr.value if rr.ok else rr.cls(), lines),
                          prop=prop)
            nviol += 1
    return nviol
