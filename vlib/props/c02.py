"""C02 — reference graph stays closed and symmetric under every mutation history (refused calls and
probe calls included: the walker also runs when a mutator returns by raising).
Deciding monitor: M4 closed_symmetric walker at every outermost mutation return."""
from . import history as H
from ..mon import hooks

ID = "C02"


def setup(ctx):
    hooks.RATE = 1
    H.PROBE_RATE = 0.4


def cases(rng, tier, shard, nshards):
    while True:
        yield H.gen_history(rng, nsteps=rng.randint(4, 20 if tier == "quick" else 60), failing=0.2,
                            fanout=True, tags=rng.random() < 0.2)


def run(case, ctx):
    before = hooks.counts().get("closed_symmetric_evals", 0)
    shape = H.run_history(case, ctx, compare_every=False)
    ctx.count("invariant_evaluations", hooks.counts().get("closed_symmetric_evals", 0) - before)
    if any(s.startswith("rename") or "cascade" in s for s in shape):
        ctx.nontriv(case["steps"])
    for s in shape:
        ctx.add("step_shapes", s)
    ctx.sample(case)


def finish(ctx):
    """extra stratum (shard 0): the repository's own test suite under the same walker
    (vlib/plug/pytest_walker.py): hand-written fixtures and test data the generators do not draw."""
    if ctx.shard != 0:
        return
    import json
    import os
    import subprocess
    import sys
    import tempfile
    import gfapy
    root = os.path.dirname(os.path.dirname(os.path.abspath(gfapy.__file__)))
    here = os.path.dirname(os.path.dirname(os.path.dirname(os.path.abspath(__file__))))
    fd, out = tempfile.mkstemp(prefix="verif-walker-", suffix=".json")
    os.close(fd)
    env = dict(os.environ, PYTHONPATH=os.pathsep.join([root, os.path.join(here, ".deps"), here]),
               VERIF_WALKER_OUT=out, PYTHONHASHSEED="0")
    try:
        p = subprocess.run([sys.executable, "-B", "-m", "pytest", "-q", "-x", "-p", "no:cacheprovider",
                            "-p", "vlib.plug.pytest_walker", "tests",
                            "--deselect", "tests/test_api_rgfa.py::TestAPIrGfa::test_stable_sequence_names"],
                           cwd=root, env=env, capture_output=True, text=True, timeout=900)
        with open(out) as f:
            rec = json.load(f)
    except subprocess.TimeoutExpired:
        ctx.inconc("test suite under the walker: watchdog (900 s)")
        return
    except Exception as e:
        ctx.inconc("test suite under the walker did not report: %r" % (e,))
        return
    finally:
        if os.path.exists(out):
            os.unlink(out)
    ctx.count("testsuite_tests", rec.get("tests", 0))
    ctx.count("testsuite_walker_runs", rec.get("hook_counts", {}).get("walker_runs", 0))
    for test, vs in rec.get("violations", {}).items():
        if "test_api_extensions" in test:
            # user-defined record types (M, T): their reference fields are declared by the
            # extension and are not part of the invariants' catalogue
            ctx.count("testsuite_extension_records_ignored", len(vs))
            continue
        for prop, key, detail in vs:
            ctx.violation("testsuite/" + key, "%s: %s" % (test, detail), case={"test": test},
                          prop=prop if prop in ("C02", "C09") else "C02")
