"""C02 — reference graph stays closed and symmetric under every mutation history.
Deciding monitor: M4 closed_symmetric walker at every outermost mutation return."""
from . import history as H
from ..mon import hooks

ID = "C02"


def setup(ctx):
    hooks.RATE = 1


def cases(rng, tier, shard, nshards):
    while True:
        yield H.gen_history(rng, nsteps=rng.randint(4, 20 if tier == "quick" else 60), failing=0.0,
                            fanout=True, tags=rng.random() < 0.2)


def run(case, ctx):
    before = hooks.counts().get("closed_symmetric_evals", 0)
    shape = H.run_history(case, ctx, compare_every=False)
    ctx.count("invariant_evaluations", hooks.counts().get("closed_symmetric_evals", 0) - before)
    if any(s.startswith("rename") or "cascade" in s for s in shape):
        ctx.nontriv(case["steps"])
    for s in shape:
        ctx.add("step_shapes", s)
    ctx.sample(case)
