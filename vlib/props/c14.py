"""C14 — linear-path merging spells the right sequence and keeps the rest intact."""
import gfapy
from ..gen import docs as G
from ..spec import grammar as S
from ..spec import edges as E
from ..spec import chains as CH
from ..mon import obs as O
from ..mon import hooks
from ..mon import invariants
from ..mon.client import call

ID = "C14"


def setup(ctx):
    hooks.RATE = 1000000     # the invariants are evaluated explicitly below (they decide C14 here)


def gen_graph(rng, version):
    n = rng.randint(2, 8)
    names = ["s%d" % i for i in range(n)]
    if rng.random() < 0.3:
        # (names which end with the letters of the segment ends)
        names = [x + rng.choice(["L", "R", "RR", "LR", "l"]) for x in names]
    with_seq = rng.random() < 0.7
    segs = {}
    for s in names:
        L = rng.randint(6, 14)
        # (sequences over ACGT, or over the IUPAC codes, upper or lower case)
        alpha = rng.choice(["ACGT", "ACGT", "ACGTRYKMSWBDHVN", "acgtrykmswbdhvn", "ACGTSWN"])
        segs[s] = (G.rseq(rng, L, alpha) if with_seq and rng.random() < 0.95 else "*", L)
    links = []
    used = set()
    feats = set()

    def add(a, ea, b, eb, ov=None):
        # a dovetail joining end ea of a with end eb of b
        fo = "+" if ea == "R" else "-"
        to = "+" if eb == "L" else "-"
        k = min((a, ea, b, eb), (b, eb, a, ea))
        if k in used:
            return False
        used.add(k)
        la, lb = segs[a][1], segs[b][1]
        m = rng.randint(1, min(la, lb, 5) - 0)
        if ov is None:
            ov = rng.choice(["*", "%dM" % m, "%dM" % m, "%d=" % m, "%dM%d=" % (max(m - 1, 1), 1)])
        if CH.match_len(ov) >= min(la, lb):
            ov = "1M"
        links.append((a, fo, b, to, ov))
        return True
    # backbone chains
    order = names[:]
    rng.shuffle(order)
    i = 0
    while i < len(order) - 1:
        ln = rng.randint(1, 4)
        chain = order[i:i + ln + 1]
        e_prev = rng.choice("LR")
        for j in range(len(chain) - 1):
            a, b = chain[j], chain[j + 1]
            eb = rng.choice("LR")
            add(a, e_prev, b, eb)
            e_prev = CH.OPP[eb]
        if rng.random() < 0.2 and len(chain) >= 2:
            # close a ring
            first = chain[0]
            # the free end of the first segment
            free_first = [e for e in "LR" if not any((first, e) in ((x[0], "R" if x[1] == "+" else "L"), (x[2], "L" if x[3] == "+" else "R")) for x in links)]
            if free_first:
                add(chain[-1], e_prev, first, free_first[0])
                feats.add("ring")
        i += ln + 1
    # extra edges: branches, self links, hairpins, shared junctions
    for _ in range(rng.choice([0, 0, 1, 2, 3])):
        k = rng.random()
        a = rng.choice(names)
        if k < 0.25:
            e = rng.choice("LR")
            add(a, e, a, e)
            feats.add("hairpin")
        elif k < 0.4:
            add(a, "R", a, "L")
            feats.add("self-link")
        else:
            b = rng.choice(names)
            if add(a, rng.choice("LR"), b, rng.choice("LR")):
                feats.add("branch")
    lines = []
    for s in names:
        seq, L = segs[s]
        if version == "gfa1":
            lines.append("S\t%s\t%s" % (s, seq) + ("\tLN:i:%d" % L if seq == "*" or rng.random() < 0.3 else ""))
        else:
            lines.append("S\t%s\t%d\t%s" % (s, L, seq))
    for (a, fo, b, to, ov) in links:
        if version == "gfa1":
            lines.append("L\t%s\t%s\t%s\t%s\t%s" % (a, fo, b, to, ov))
        else:
            m = CH.match_len(ov)
            la, lb = segs[a][1], segs[b][1]
            i1 = (str(la - m), "%d$" % la) if fo == "+" else ("0", str(m))
            i2 = ("0", str(m)) if to == "+" else (str(lb - m), "%d$" % lb)
            lines.append("E\t*\t%s%s\t%s%s\t%s\t%s\t%s\t%s\t%s" % (a, fo, b, to, i1[0], i1[1], i2[0], i2[1],
                                                                    ov if ov != "*" and "=" not in ov else ("%dM" % m if m else "*")))
    return lines, sorted(feats)


def cases(rng, tier, shard, nshards):
    while True:
        version = "gfa1" if rng.random() < 0.7 else "gfa2"
        lines, feats = gen_graph(rng, version)
        rng.shuffle(lines)
        opts = {}
        if rng.random() < 0.3 and not any("^" in l for l in lines):
            # the option which does not change what is merged: tracking tags (and "^" in the names
            # of reverse-complemented members)
            opts = {"enable_tracking": True}
            # (cut_counts is outside the claim: it only rescales the count tags -- and raises a
            #  builtin TypeError when the merged length is unknown, DESIGN 9.5)
        yield {"version": version, "lines": lines, "feats": feats, "opts": opts,
               "vlevel": rng.choice([1, 1, 0, 2, 3])}


def gfapy_paths(r):
    return [[(se.name, se.end_type) for se in p] for p in r]


def merge_one_reversed(ctx, g, path, inplace, recs, version, lines):
    fwd = [(se.name, se.end_type) for se in path]
    if inplace:
        r = call(ctx, "path.reverse()", path.reverse)
        rev = path
    else:
        r = call(ctx, "reversed(path)", lambda: type(path)(reversed(path)))
        rev = r.value if r.ok else None
    ctx.count("single_paths_reversed_then_merged")
    if not r.ok:
        ctx.violation("reverse-raises/%s" % r.cls(), "%r: %s" % (fwd, str(r.exc)[:200]))
        return
    got = [(se.name, se.end_type) for se in rev]
    want = CH.reversed_chain(fwd)
    if got != want:
        ctx.violation("reversed-path-differs/%s" % ("in-place" if inplace else "reversed()"),
                      "path %r reversed: gfapy %r, expected %r" % (fwd, got, want))
        return
    arg = rev
    if len(repr(lines)) % 3 != 0:
        # the documented other forms of a path: 'name' + 'L'/'R' strings, or [name, end] pairs
        arg = [str(se) for se in rev] if len(repr(lines)) % 2 else [[se.name, se.end_type] for se in rev]
        ctx.count("paths_given_as_strings_or_pairs")
    m = call(ctx, "merge_linear_path", g.merge_linear_path, arg)
    if not m.ok:
        ctx.violation("gfa1/merge-raises/%s/single-reversed-path" % m.cls(), "path %r of %r: %s" % (got, lines, str(m.exc)[:300]))
        return
    for key, detail in invariants.closed_symmetric(g):
        ctx.violation("after-merge/closed-symmetric/" + key, "%s\n document %r" % (detail, lines))
        return
    after = [O.safe_str(l) for l in g.lines]
    ainfo = CH.seg_info([S.parse_line(l, version) for l in after if l[:1] == "S"], version)
    name = "_".join(s_ for s_, _ in want)
    seq, ln = CH.spell(recs, version, want)
    if name not in ainfo:
        ctx.violation("merged-segment-missing", "expected a segment %r; segments now %r; document %r" % (name, sorted(ainfo), lines))
        return
    if ainfo[name][0] != seq:
        ctx.violation("merged-sequence-wrong/single-reversed-path", "path %r: spelled %r, merged segment has %r\n document %r"
                      % (want, seq, ainfo[name][0], lines))
        return
    gone = [s_ for s_, _ in want if s_ in ainfo]
    if gone:
        ctx.violation("chain-members-kept/single-reversed-path", "%r still defined after merging %r" % (gone, want))
        return
    ctx.nontriv(["single-reversed", lines])


def run(case, ctx):
    version, lines = case["version"], case["lines"]
    recs = [S.parse_line(l, version) for l in lines]
    # GFA2 positions equal to 0-length intervals are empty prefixes: keep the model honest
    r = call(ctx, "Gfa(list)", gfapy.Gfa, lines, version=version, vlevel=case.get("vlevel", 1))
    if not r.ok:
        ctx.violation("valid-document-refused/%s" % r.cls(), "%r: %s" % (lines, str(r.exc)[:200]), prop="C01")
        return
    g = r.value
    ctx.count("merges_at_level_%d" % case.get("vlevel", 1))
    want = CH.chains(recs, version)
    lp = call(ctx, "linear_paths", g.linear_paths)
    ctx.count("linear_paths_calls")
    if not lp.ok:
        ctx.violation("linear_paths-raises/%s" % lp.cls(), "%r: %s" % (lines, str(lp.exc)[:200]))
        return
    got = gfapy_paths(lp.value)
    wn = sorted(CH.norm_chain(c, ring) for c, ring in want)
    rings = {frozenset(s for s, _ in c) for c, ring in want if ring}
    gn = sorted(CH.norm_chain(c, frozenset(s for s, _ in c) in rings) for c in got)
    if wn != gn:
        kind = "missing" if len(gn) < len(wn) else "extra" if len(gn) > len(wn) else "different"
        ctx.violation("linear-paths-differ/%s/%s" % (kind, "+".join(case["feats"]) or "plain"),
                      "model %r\n gfapy %r\n document %r" % (wn, gn, lines))
        return
    # the chain of a single segment, asked directly (twice: the answer does not depend on what
    # was asked before, in this or another Gfa of the process)
    import random as _random
    prng = _random.Random(len(lines) * 7919 + len(repr(lines)))
    members = [(s_, c) for c, ring in want if not ring for s_, _e in c]
    prng.shuffle(members)
    for s_, c in members[:3]:
        for arg in (s_, g.segment(s_)):
            one = call(ctx, "linear_path", g.linear_path, arg)
            ctx.count("linear_path_calls")
            if not one.ok:
                ctx.violation("linear_path-raises/%s" % one.cls(), "linear_path(%r) on %r: %s" % (s_, lines, str(one.exc)[:200]))
                return
            gc = [(se.name, se.end_type) for se in one.value]
            if CH.norm_chain(gc, False) != CH.norm_chain(c, False):
                ctx.violation("linear_path-differs/%s" % ("truncated" if len(gc) < len(c) else "other"),
                              "linear_path(%r): gfapy %r, model chain %r\n document %r" % (s_, gc, c, lines))
                return
    for c, ring in want:
        ctx.add("chain_lengths", len(c))
    if any(len(c) >= 3 and len(set(e for _, e in c)) > 1 for c, _ in want):
        ctx.nontriv(lines)
    for f in case["feats"]:
        ctx.add("features", f)
    if version == "gfa1" and len(repr(lines)) % 5 == 0 and not (case.get("opts") or {}):
        # one path, turned round (in place, or through reversed()), merged on its own: the merged
        # segment spells the chain in the direction it was given
        cands = [p_ for p_ in lp.value if frozenset(se.name for se in p_) not in rings]
        if cands:
            return merge_one_reversed(ctx, g, prng.choice(cands), prng.random() < 0.5, recs, version, lines)
    before_text = {O.line_key(l): O.safe_str(l) for l in g.lines}
    in_chain = set(s for c in got for s, _ in c)
    opts = case.get("opts") or {}
    m = call(ctx, "merge_linear_paths", g.merge_linear_paths, **opts)
    ctx.count("merges")
    for o in opts:
        ctx.count("merges_with_" + o)
    if not m.ok:
        ctx.violation("%s/merge-raises/%s/%s" % (version, m.cls(), "+".join(case["feats"]) or "plain"),
                      "%r: %s" % (lines, str(m.exc)[:300]))
        return
    # closed and symmetric object graph (part of the statement)
    for key, detail in invariants.closed_symmetric(g):
        ctx.violation("after-merge/closed-symmetric/" + key, "%s\n document %r" % (detail, lines))
        return
    ctx.count("invariant_evaluations")
    after = [O.safe_str(l) for l in g.lines]
    if opts.get("enable_tracking"):
        # reverse-complemented members are marked with "^" in the name of the merged segment
        after = [l.replace("^", "") for l in after]
    arecs = [S.parse_line(l, version) for l in after if not l.startswith("#") and not l.startswith("H")]
    ainfo = CH.seg_info(arecs, version)
    # merged segments: sequence, length
    phi = {}
    for path in got:
        name = "_".join(s for s, _ in path)
        seq, ln = CH.spell(recs, version, path)
        if name not in ainfo:
            ctx.violation("merged-segment-missing", "expected a segment %r; segments now %r; document %r"
                          % (name, sorted(ainfo), lines))
            return
        gseq, gln = ainfo[name]
        if gseq != seq:
            ctx.violation("merged-sequence-wrong/%s" % ("+".join(case["feats"]) or "plain"),
                          "path %r: spelled %r, merged segment has %r\n document %r" % (path, seq, gseq, lines))
            return
        if ln is not None and gln is not None and gln != ln:
            ctx.violation("merged-length-wrong", "path %r: length %r, merged segment says %r; document %r" % (path, ln, gln, lines))
            return
        if seq != "*" and gln is not None and gln != len(seq):
            ctx.violation("merged-length-inconsistent", "%r: LN %r vs sequence length %d" % (name, gln, len(seq)))
            return
        first, last = path[0], path[-1]
        phi[(first[0], CH.OPP[first[1]])] = (name, "L")
        phi[(last[0], last[1])] = (name, "R")
    # dovetails: exactly the non-chain junctions, re-attached
    dv, deg = CH.junctions(recs, version)
    merged_j = set()
    for path in got:
        for i in range(len(path) - 1):
            a = (path[i][0], path[i][1])
            b = (path[i + 1][0], CH.OPP[path[i + 1][1]])
            merged_j.add(frozenset([a, b]))
    want_d = []
    for a, b, i in dv:
        if frozenset([a, b]) in merged_j and a[0] != b[0]:
            continue
        if (a[0] in in_chain and a not in phi) or (b[0] in in_chain and b not in phi):
            # a dovetail on an end interior to a chain cannot exist (such a junction is not mergeable)
            continue
        ov = recs[i].pos[4] if version == "gfa1" else recs[i].pos[7]
        want_d.append((tuple(sorted([phi.get(a, a), phi.get(b, b)])), CH.match_len(ov) if ov != "*" else "*"))
    got_d = []
    for a, b, i in E.dovetail_ends(arecs, version):
        ov = arecs[i].pos[4] if version == "gfa1" else arecs[i].pos[7]
        got_d.append((tuple(sorted([a, b])), CH.match_len(ov) if ov != "*" else "*"))
    if version == "gfa2":
        # (i) the re-attached edges as oriented segment pairs (independent of positions)
        fwd = {}
        for path in got:
            name = "_".join(x for x, _ in path)
            for sname, e in path:
                fwd[sname] = (name, e == "R")

        def omap(ref):
            n, o = ref[:-1], ref[-1]
            if n in fwd:
                m_, f = fwd[n]
                return (m_, o if f else S.inv(o))
            return (n, o)
        want_p = []
        for a, b, i in dv:
            if frozenset([a, b]) in merged_j and a[0] != b[0]:
                continue
            want_p.append(tuple(sorted([omap(recs[i].pos[1]), omap(recs[i].pos[2])])))
        got_p = [tuple(sorted([(r_.pos[1][:-1], r_.pos[1][-1]), (r_.pos[2][:-1], r_.pos[2][-1])]))
                 for r_ in arecs if r_.rt == "E"]
        twice = any(a in phi and b in phi for a, b, i in dv if not (frozenset([a, b]) in merged_j and a[0] != b[0]))
        if sorted(want_p) != sorted(got_p) and (len(got) >= 2 or twice):
            # an edge that must be re-attached twice (it joins two chain ends): after the first
            # re-attachment with stale positions it is misfiled and not found by the second one:
            # same mechanism as (ii), cascaded
            ctx.violation("gfa2/positions-of-reattached-edges/cascaded-over-several-chains",
                          "model %r\n gfapy %r\n before %r\n after %r" % (sorted(want_p), sorted(got_p), lines, after))
            return
        if sorted(want_p) != sorted(got_p):
            ctx.violation("gfa2/reattached-edges-differ/%s" % ("+".join(case["feats"]) or "plain"),
                          "model %r\n gfapy %r\n before %r\n after %r" % (sorted(want_p), sorted(got_p), lines, after))
            return
    if sorted(want_d, key=repr) != sorted(got_d, key=repr):
        missing = [x for x in want_d if x not in got_d]
        extra = [x for x in got_d if x not in want_d]
        what = "missing" if missing and not extra else "extra" if extra and not missing else "changed"
        if version == "gfa2":
            # (ii) ends derived from the positions of the re-attached E lines
            ctx.violation("gfa2/positions-of-reattached-edges/%s" % what,
                          "missing %r extra %r\n before %r\n after %r" % (missing, extra, lines, after))
            return
        ctx.violation("gfa1/outward-dovetails-differ/%s/%s" % (what, "+".join(case["feats"]) or "plain"),
                      "missing %r extra %r\n before %r\n after %r" % (missing, extra, lines, after))
        return
    # untouched lines
    for l in g.lines:
        k = O.line_key(l)
        if l.record_type == "S" and l.name not in in_chain and k in before_text and before_text[k] != O.safe_str(l):
            ctx.violation("untouched-line-changed/S", "%r -> %r" % (before_text[k], O.safe_str(l)))
            return
    for k, t in before_text.items():
        if k.startswith("S:") and k[2:] not in in_chain and t not in after:
            ctx.violation("untouched-line-lost/S", "%r; document %r" % (t, lines))
            return
    # components preserved (under the renaming)
    ren = {}
    for path in got:
        for s, _ in path:
            ren[s] = "_".join(x for x, _ in path)
    want_c = sorted((frozenset(ren.get(s, s) for s in c) for c in E.components(recs, version)), key=sorted)
    got_c = E.components(arecs, version)
    if want_c != got_c:
        ctx.violation("components-changed-by-merge", "before (renamed) %r after %r; document %r"
                      % ([sorted(c) for c in want_c], [sorted(c) for c in got_c], lines))
        return
    # ... and gfapy's own answers after the merge agree (asked before and after in the same process)
    cc = call(ctx, "connected_components", g.connected_components)
    def nm(x):
        return x.name.replace("^", "") if (case.get("opts") or {}).get("enable_tracking") else x.name
    if not cc.ok or sorted((frozenset(nm(x) for x in c) for c in cc.value), key=sorted) != got_c:
        ctx.violation("components-answer-after-merge/connected_components",
                      "%s; text model %r; document %r" % (cc.cls() if not cc.ok else [sorted(nm(x) for x in c) for c in cc.value],
                                                          [sorted(c) for c in got_c], after))
        return
    for c in got_c[:3]:
        sn = sorted(c)[0]
        real = [x.name for x in g.segments if nm(x) == sn]
        if len(real) != 1:
            continue
        sc = call(ctx, "segment_connected_component", g.segment_connected_component, real[0])
        ctx.count("component_answers_after_merge")
        if not sc.ok or frozenset(nm(x) for x in sc.value) != c:
            ctx.violation("components-answer-after-merge/segment_connected_component",
                          "of %s: %s; text model %r; document %r"
                          % (sn, sc.cls() if not sc.ok else sorted(x.name for x in sc.value), sorted(c), after))
            return
    # merging again changes nothing
    t1 = O.safe_str(g)
    m2 = call(ctx, "merge_linear_paths", g.merge_linear_paths)
    if not m2.ok or O.safe_str(g) != t1:
        ctx.violation("second-merge-changes/%s" % ("+".join(case["feats"]) or "plain"),
                      "%s\n after first merge %r" % (m2.cls() if not m2.ok else O.safe_str(g), t1))
        return
    ctx.sample({"version": version, "lines": lines, "paths": got})
