"""C17 — GFA2 groups resolve to the paths and sets the specification defines."""
import itertools
import random
import gfapy
from ..spec import grammar as S
from ..mon import obs as O
from ..mon import hooks
from ..mon.client import call

from ..ctx import level_of

ID = "C17"


def setup(ctx):
    hooks.RATE = 15


def inv(o):
    return "-" if o == "+" else "+"


# ----------------------------------------------------------------- generation
def gen_graph(rng):
    n = rng.randint(2, 6)
    segs = ["s%d" % i for i in range(n)]
    edges = []          # (eid, (a,oa), (b,ob))
    for i in range(rng.randint(1, 2 * n)):
        a, b = rng.choice(segs), rng.choice(segs)
        edges.append(("e%d" % i, (a, rng.choice("+-")), (b, rng.choice("+-"))))
    return segs, edges


def fits(edge, x, y):
    """'+', '-' or None: does edge join oriented segments x -> y (documented rule)."""
    _, p, q = edge
    if (p, q) == (x, y) or (q, p) == (x, y):
        # listing order does not matter; traversed '+'
        return "+"
    ip, iq = (p[0], inv(p[1])), (q[0], inv(q[1]))
    if (ip, iq) == (x, y) or (iq, ip) == (x, y):
        return "-"
    return None


def random_walk(rng, segs, edges, maxlen=4):
    """alternating walk [seg, (edge, sign), seg, ...] over the graph."""
    e = rng.choice(edges)
    sign = rng.choice("+-")
    p, q = e[1], e[2]
    if sign == "-":
        p, q = (p[0], inv(p[1])), (q[0], inv(q[1]))
    if rng.random() < 0.5:
        p, q = q, p
    walk = [p, (e[0], sign), q]
    for _ in range(rng.randint(0, maxlen - 1)):
        cur = walk[-1]
        cands = []
        for e2 in edges:
            for sg in "+-":
                a, b = e2[1], e2[2]
                if sg == "-":
                    a, b = (a[0], inv(a[1])), (b[0], inv(b[1]))
                if a == cur:
                    cands.append((e2[0], sg, b))
                if b == cur:
                    cands.append((e2[0], sg, a))
        if not cands:
            break
        eid, sg, nxt = rng.choice(cands)
        walk += [(eid, sg), nxt]
    return walk


def endpoints(edge, sign):
    _, p, q = edge
    if sign == "-":
        return (p[0], inv(p[1])), (q[0], inv(q[1]))
    return p, q


def fitting(edges, x, y):
    """all (edge id, sign) whose oriented endpoints are {x, y} read x -> y."""
    out = []
    for e in edges:
        for sg in "+-":
            a, b = endpoints(e, sg)
            if (a, b) == (x, y) or (b, a) == (x, y):
                out.append((e[0], sg))
    return out


def consistent_walks(items, segs, edges, nested, limit=3):
    """all alternating walks consistent with the item list (§3.9): items are (name, orient).
    nested: name -> walk.  Returns a list of walks (at most `limit`)."""
    emap = {e[0]: e for e in edges}
    flat = []
    for name, o in items:
        if name in nested:
            w = nested[name]
            if o == "-":
                w = [(x[0], inv(x[1])) for x in reversed(w)]
            flat += [("w", x) for x in w]          # elements of a known walk, in order
        else:
            flat.append(("i", (name, o)))
    results = []

    def rec(i, walk, implied):
        if len(results) >= limit:
            return
        if i == len(flat):
            if walk not in results:
                results.append(walk)
            return
        kind, (name, o) = flat[i]
        if name in segs:
            x = (name, o)
            if not walk:
                rec(i + 1, [x], False)
                return
            last = walk[-1]
            if implied and last == x:
                rec(i + 1, walk, False)            # the segment confirms the one the edge implied
                if kind == "i":
                    pass
            if implied and last != x:
                return
            if not implied:
                for (eid, sg) in fitting(edges, last, x):
                    rec(i + 1, walk + [(eid, sg), x], False)
        else:
            e = emap[name]
            a, b = endpoints(e, o)
            if not walk:
                rec(i + 1, [a, (name, o), b], True)
                if a != b:
                    rec(i + 1, [b, (name, o), a], True)
                return
            last = walk[-1]
            if last == a:
                rec(i + 1, walk + [(name, o), b], True)
            if last == b and a != b:
                rec(i + 1, walk + [(name, o), a], True)
    rec(0, [], False)
    return results


def unique_presentation(items, walk, segs, edges, nested=None):
    """True iff the items determine exactly the walk, and the direction of a leading edge is
    already determined by the first two items (gfapy's documented one-item look-ahead)."""
    nested = nested or {}
    its = [(x[:-1], x[-1]) for x in items]
    ws = consistent_walks(its, segs, edges, nested)
    if len(ws) != 1 or [tuple(x) for x in ws[0]] != [tuple(x) for x in walk]:
        return False
    if its and its[0][0] not in segs and its[0][0] not in nested:
        if len(its) == 1:
            return False
        firsts = set(tuple(w[0]) for w in consistent_walks(its[:2], segs, edges, nested))
        if len(firsts) != 1:
            return False
    return True


def n_fitting(edges, x, y):
    return len(fitting(edges, x, y))


def present(rng, walk, edges, style=None):
    """items (strings) presenting the walk; returns (items, ends_with_segment_item)."""
    style = style or rng.choice(["full", "segments", "edges", "mixed"])
    nseg = (len(walk) + 1) // 2
    items = []
    if style == "full":
        for k, w in enumerate(walk):
            items.append(w[0] + w[1])
        return items, True
    if style == "segments":
        # legal only if every step has exactly one fitting edge
        for i in range(nseg - 1):
            if n_fitting(edges, walk[2 * i], walk[2 * i + 2]) != 1:
                return present(rng, walk, edges, "full")
        return [walk[2 * i][0] + walk[2 * i][1] for i in range(nseg)], True
    if style == "edges":
        # consecutive identical edges make the shared segment ambiguous: keep explicit then
        return present(rng, walk, edges, "mixed_edges")
    # mixed: drop an edge when both neighbours are listed and it is the only fitting one; drop a
    # segment when an adjacent edge is listed
    keep = [True] * len(walk)
    for k in range(len(walk)):
        if k % 2 == 1:
            if rng.random() < 0.5 and n_fitting(edges, walk[k - 1], walk[k + 1]) == 1:
                keep[k] = False
    for k in range(0, len(walk), 2):
        left_edge = k - 1 >= 0 and keep[k - 1]
        right_edge = k + 1 < len(walk) and keep[k + 1]
        p = 0.9 if style == "mixed_edges" else 0.4
        if (left_edge or right_edge) and rng.random() < p:
            # the first segment is implied only if the first edge's direction is determined by the next item
            keep[k] = False
    # a segment dropped between two dropped edges is impossible by construction (edges dropped only when
    # both neighbours are listed): re-check
    for k in range(1, len(walk), 2):
        if not keep[k] and (not keep[k - 1] or not keep[k + 1]):
            keep[k] = True
    # a single kept edge with both segments dropped leaves the direction undetermined: keep the last segment
    if not any(keep[k] for k in range(0, len(walk), 2)) and sum(keep) == 1:
        keep[-1] = True
    # two consecutive kept edges that are the same edge and whose shared segment is dropped: direction
    # of the first is ambiguous
    for k in range(1, len(walk) - 2, 2):
        if keep[k] and keep[k + 2] and not keep[k + 1] and walk[k][0] == walk[k + 2][0]:
            keep[k + 1] = True
    items = [walk[k][0] + walk[k][1] for k in range(len(walk)) if keep[k]]
    return items, keep[-1]


def cases(rng, tier, shard, nshards):
    while True:
        segs, edges = gen_graph(rng)
        lines = ["S\t%s\t20\t*" % s for s in segs]
        for eid, p, q in edges:
            lines.append("E\t%s\t%s%s\t%s%s\t0\t5\t15\t20$\t*" % (eid, p[0], p[1], q[0], q[1]))
        groups = []
        expect = {}
        kind = rng.choice(["path", "path", "nested", "nested", "broken", "multiline", "multinested", "set"])
        walk = random_walk(rng, segs, edges, rng.randint(1, 4))
        if kind == "path":
            items, _ = present(rng, walk, edges)
            if not unique_presentation(items, walk, segs, edges):
                items, _ = present(rng, walk, edges, "full")
                if not unique_presentation(items, walk, segs, edges):
                    continue
            groups.append("O\tp1\t" + " ".join(items))
            expect["p1"] = walk
        elif kind == "nested":
            # p1 covers a sub-walk, p2 references it + or -
            nseg = (len(walk) + 1) // 2
            i = rng.randint(0, nseg - 1)
            j = rng.randint(i, nseg - 1)
            if j == i:
                j = min(nseg - 1, i + 1)
            if j == i:
                i = max(0, i - 1)
            sub = walk[2 * i:2 * j + 1]
            if len(sub) < 3:
                continue
            sign = rng.choice("+-")
            stored = sub if sign == "+" else [(w[0], inv(w[1])) for w in reversed(sub)]
            sub_items, ends_seg = present(rng, stored, edges)
            edge_ends = rng.random() < 0.5      # the nested path may begin / end with an edge item
            if not edge_ends and (not ends_seg or sub_items[0][:-1] not in segs or sub_items[-1][:-1] not in segs):
                sub_items, _ = present(rng, stored, edges, "full")
            if edge_ends and len(stored) >= 3 and rng.random() < 0.6:
                # force it: drop the first and/or the last segment (implied by the adjacent edge)
                full = [w[0] + w[1] for w in stored]
                lo = 1 if rng.random() < 0.6 else 0
                hi = len(full) - 1 if rng.random() < 0.6 else len(full)
                if hi - lo >= 2 or (hi - lo == 1 and len(full) > 3):
                    sub_items = full[lo:hi]
            before, after = walk[:2 * i], walk[2 * j + 1:]
            # before ends with an edge item or a segment whose step to the nested start has one fitting edge
            pre_items = []
            if before:
                if rng.random() < 0.5 or n_fitting(edges, before[-2], sub[0]) != 1 or len(before) < 2:
                    pi, _ = present(rng, before[:-1] if len(before) > 1 else before, edges, "full")
                    pre_items = pi + [before[-1][0] + before[-1][1]]
                else:
                    pi, _ = present(rng, before[:-1], edges, "full")
                    pre_items = pi
            post_items = []
            if after:
                pa, _ = present(rng, after, edges, "full")
                post_items = pa
                if rng.random() < 0.5 and n_fitting(edges, sub[-1], after[1]) == 1:
                    post_items = pa[1:]     # the edge after the nested path is left to be supplied
            if not unique_presentation(sub_items, stored, segs, edges):
                sub_items, _ = present(rng, stored, edges, "full")
                if not unique_presentation(sub_items, stored, segs, edges):
                    continue
            p2_items = pre_items + ["p1" + sign] + post_items
            if before and rng.random() < 0.5:
                # leading edges only (their segments implied), then the nested path
                alt = [w[0] + w[1] for w in before[1::2]] + ["p1" + sign] + post_items
                if unique_presentation(alt, walk, segs, edges, {"p1": stored}):
                    p2_items = alt
            if not unique_presentation(p2_items, walk, segs, edges, {"p1": stored}):
                continue
            # the reference may be read as "the items of p1, in place" or as "the walk of p1, in
            # place": the two readings differ when an end of p1 which is an edge item faces a
            # segment item (restatement of the implied segment vs a further step).  Only lists on
            # which both readings agree are used.
            flat = []
            for it in p2_items:
                if it[:-1] == "p1":
                    flat += sub_items if it[-1] == "+" else [x[:-1] + inv(x[-1]) for x in reversed(sub_items)]
                else:
                    flat.append(it)
            if not unique_presentation(flat, walk, segs, edges):
                continue
            if sub_items[0][:-1] not in segs or sub_items[-1][:-1] not in segs:
                expect["_edge_ended_nested"] = True
            groups.append("O\tp1\t" + " ".join(sub_items))
            groups.append("O\tp2\t" + " ".join(p2_items))
            expect["p1"] = stored
            expect["p2"] = walk
            if rng.random() < 0.35:
                # one more level: p3 is p2 as a whole, either way round
                s3 = rng.choice("+-")
                groups.append("O\tp3\tp2" + s3)
                expect["p3"] = walk if s3 == "+" else [(w[0], inv(w[1])) for w in reversed(walk)]
        elif kind == "broken":
            items, _ = present(rng, walk, edges, "full")
            how = rng.choice(["foreign-segment", "ambiguous", "gap", "ambiguous-twins"])
            extra_edges = []
            if how == "foreign-segment":
                other = [s for s in segs if all(s != w[0] for w in walk[::2])]
                if not other or len(items) < 3:
                    continue
                k = rng.randrange(0, len(items), 2)
                items[k] = rng.choice(other) + rng.choice("+-")
            elif how == "ambiguous":
                # two parallel edges between consecutive segments, edge omitted
                a, b = walk[0], walk[2]
                lines.append("E\tpar\t%s%s\t%s%s\t0\t5\t15\t20$\t*" % (a[0], a[1], b[0], b[1]))
                items = [a[0] + a[1], b[0] + b[1]]
                extra_edges = [("par", walk[0], walk[2])]
            elif how == "ambiguous-twins":
                # the only two edges which fit are unnamed and written identically (two distinct
                # E lines with the same content are two edges)
                a = (rng.choice(segs), rng.choice("+-"))
                b = (rng.choice(segs), rng.choice("+-"))
                if n_fitting(edges, a, b) != 0:
                    continue
                tw = "E\t*\t%s%s\t%s%s\t0\t5\t15\t20$\t*" % (a[0], a[1], b[0], b[1])
                lines += [tw, tw]
                items = [a[0] + a[1], b[0] + b[1]]
                extra_edges = [("tw1", a, b), ("tw2", a, b)]
            else:
                if len(walk) < 5:
                    continue
                # drop segment + edges so that two non-adjacent segments follow each other
                a, c = walk[0], walk[4]
                if n_fitting(edges, a, c) > 0:
                    continue
                items = [a[0] + a[1], c[0] + c[1]]
            alle = edges + extra_edges
            if len(consistent_walks([(x[:-1], x[-1]) for x in items], segs, alle, {})) == 1:
                continue            # the list still denotes exactly one walk: not broken after all
            groups.append("O\tp1\t" + " ".join(items))
            expect["p1"] = "error"
        elif kind == "multiline":
            rt = rng.choice(["U", "O"])
            nl = rng.randint(2, 4)
            pool = segs + [e[0] for e in edges]
            for k in range(nl):
                its = [rng.choice(pool) for _ in range(rng.randint(1, 3))]
                if rt == "O":
                    its = [x + rng.choice("+-") for x in its]
                tags = ""
                if rng.random() < 0.6:
                    tags = "\t%s:%s" % (rng.choice(["aa", "bb", "cc", "dd"]) , rng.choice(["i:5", "Z:x", "A:q", "J:[1]", "H:0A", "B:c,1"]))
                groups.append("%s\tg1\t%s%s" % (rt, " ".join(its), tags))
            # tags on different lines must not contradict: make names unique
            seen = set()
            ok = True
            for gl in groups:
                f = gl.split("\t")
                for t in f[3:]:
                    if t[:2] in seen:
                        ok = False
                    seen.add(t[:2])
            if not ok:
                continue
            expect["g1"] = "multiline"
        elif kind == "multinested":
            # a group defined on several lines which is itself an item of other groups; the lines of
            # the outer groups may arrive before, between or after the lines of the inner group
            rt = rng.choice(["U", "O"])
            if rt == "O":
                full = [w[0] + w[1] for w in walk]
                if len(full) < 3 or not unique_presentation(full, walk, segs, edges):
                    continue
                cuts = sorted(rng.sample(range(1, len(full)), min(len(full) - 1, rng.randint(1, 2))))
                chunks = [full[a:b] for a, b in zip([0] + cuts, cuts + [len(full)])]
                inner = ["O\tg1\t" + " ".join(c) for c in chunks]
                expect["g1"] = walk
            else:
                pool = segs + [e[0] for e in edges]
                inner = ["U\tg1\t" + " ".join(rng.choice(pool) for _ in range(rng.randint(1, 3)))
                         for _ in range(rng.randint(2, 3))]
            outer = []
            if rt == "O" and rng.random() < 0.7:
                sg = rng.choice("+-")
                outer.append("O\tp9\tg1" + sg)
                expect["p9"] = walk if sg == "+" else [(w[0], inv(w[1])) for w in reversed(walk)]
            if rng.random() < 0.7 or not outer:
                outer.append("U\tu9\t" + " ".join(["g1"] + ([rng.choice(segs)] if rng.random() < 0.4 else [])))
                expect["u9"] = "set"
            groups = inner + outer
            expect["_inner"] = len(inner)
            expect["_rt"] = rt
        else:
            # sets over segments, edges, a path and a nested set
            items, _ = present(rng, walk, edges)
            if not unique_presentation(items, walk, segs, edges):
                items, _ = present(rng, walk, edges, "full")
                if not unique_presentation(items, walk, segs, edges):
                    continue
            groups.append("O\tp1\t" + " ".join(items))
            expect["p1"] = walk
            u1 = [rng.choice(segs + [e[0] for e in edges]) for _ in range(rng.randint(1, 3))]
            groups.append("U\tu1\t" + " ".join(u1))
            u2 = [rng.choice(segs + [e[0] for e in edges] + ["p1", "u1"]) for _ in range(rng.randint(1, 4))]
            if rng.random() < 0.7 and "u1" not in u2:
                u2.append(rng.choice(["u1", "p1"]))
            groups.append("U\tu2\t" + " ".join(u2))
            expect["u1"] = "set"
            expect["u2"] = "set"
        order = rng.randrange(1000)
        yield {"k": kind, "lines": lines, "groups": groups, "expect": expect, "order": order,
               "segs": segs, "edges": [[e[0], list(e[1]), list(e[2])] for e in edges]}


# ------------------------------------------------------------------ oracle
def model_induced(case, name, texts, seen=None):
    """(segments set, edges set) induced by unordered group `name`."""
    seen = seen or set()
    seen.add(name)
    segs = set()
    edges = {e[0]: (e[1][0], e[2][0]) for e in case["edges"]}
    items = texts[name].split("\t")[2].split(" ")
    for it in items:
        if it in case["segs"]:
            segs.add(it)
        elif it in edges:
            segs.update(edges[it])
        elif it in texts and texts[it].startswith("O"):
            w = case["expect"][it]
            segs.update(x[0] for x in w[::2])
        elif it in texts and texts[it].startswith("U") and it not in seen:
            s2, _ = model_induced(case, it, texts, seen)
            segs.update(s2)
    ind_edges = set(eid for eid, (a, b) in edges.items() if a in segs and b in segs)
    return segs, ind_edges


def run_multinested(case, ctx, rng):
    lines, groups, expect = list(case["lines"]), list(case["groups"]), case["expect"]
    ni, rt = expect["_inner"], expect["_rt"]
    inner, outer = groups[:ni], groups[ni:]
    perms = list(itertools.permutations(range(len(groups))))
    if rt == "O":
        # the items are concatenated in arrival order: the inner lines keep their relative order
        perms = [p for p in perms if [i for i in p if i < ni] == list(range(ni))]
    rng.shuffle(perms)
    for p in perms[:12]:
        order = [groups[i] for i in p]
        # the graph lines arrive first, last or mixed in
        doc = {0: lines + order, 1: order + lines}.get(rng.randrange(3))
        if doc is None:
            # random merge of the two sequences, each keeping its order
            a, b, doc = list(lines), list(order), []
            while a or b:
                src = a if (a and (not b or rng.random() < len(a) / (len(a) + len(b)))) else b
                doc.append(src.pop(0))
        rr = call(ctx, "Gfa(list)", gfapy.Gfa, doc, version="gfa2")
        ctx.count("multinested_orders")
        if not rr.ok:
            ctx.violation("nested-multiline-group-refused/%s" % rr.cls(), "%r: %s" % (order, str(rr.exc)[:200]))
            return
        g = rr.value
        merged_items = []
        for gl in order:
            if gl.split("\t")[1] == "g1":
                merged_items += gl.split("\t")[2].split(" ")
        texts = {gl.split("\t")[1]: gl for gl in outer}
        texts["g1"] = "%s\tg1\t%s" % (rt, " ".join(merged_items))
        grp = g.line("g1")
        got_items = [(x.name + x.orient) if isinstance(x, gfapy.OrientedLine) else x.name for x in grp.items]
        if got_items != merged_items:
            ctx.violation("multiline-items-not-concatenated/%s/nested" % rt, "arrival order %r: items %r; document %r" % (order, got_items, doc))
            return
        for name, exp in expect.items():
            if name.startswith("_"):
                continue
            o = g.line(name)
            if exp == "set":
                ws, we = model_induced(case, name, texts)
                for what, want in (("induced_segments_set", ws), ("induced_edges_set", we)):
                    r2 = call(ctx, what, lambda: getattr(o, what))
                    ctx.count("induced_sets")
                    ctx.count("nested_multiline_resolutions")
                    if not r2.ok:
                        ctx.violation("%s-raises/%s/over-multiline-group" % (what, r2.cls()),
                                      "arrival order %r: %s" % (order, str(r2.exc)[:200]))
                        return
                    got = [x.name for x in r2.value]
                    if set(got) != want or len(got) != len(set(got)):
                        ctx.violation("%s-differs/over-multiline-group" % what, "arrival order %r: gfapy %r, model %r"
                                      % (order, sorted(got), sorted(want)))
                        return
            else:
                walk = [tuple(w) for w in exp]
                cp = call(ctx, "captured_path", lambda: o.captured_path)
                ctx.count("captured_paths")
                ctx.count("nested_multiline_resolutions")
                if not cp.ok:
                    ctx.violation("captured_path-raises/%s/over-multiline-group" % cp.cls(),
                                  "arrival order %r, %s should resolve to %r: %s" % (order, name, walk, str(cp.exc)[:200]))
                    return
                got = [(x.name, x.orient) for x in cp.value]
                if got != walk:
                    ctx.violation("captured_path-differs/over-multiline-group", "arrival order %r, %s: gfapy %r, expected %r"
                                  % (order, name, got, walk))
                    return
    ctx.nontriv([lines, groups])
    ctx.sample({"kind": "multinested", "groups": groups})


def run(case, ctx):
    kind = case["k"]
    rng = random.Random(case["order"])
    lines = list(case["lines"])
    groups = list(case["groups"])
    ctx.add("kinds", kind)
    if kind == "multiline":
        perms = list(itertools.permutations(range(len(groups))))
        for p in perms:
            order = [groups[i] for i in p]
            doc = lines + order
            objs = []
            if rng.random() < 0.5:
                # the group lines are given as Line objects which the caller keeps
                objs = [gfapy.Line(x, version="gfa2") for x in order]
                doc = lines + objs
            layout = rng.randrange(3)
            if layout:
                # the group lines arrive before the lines they mention, or among them (the items
                # are placeholders until then)
                gl = doc[len(lines):]
                if layout == 1:
                    doc = gl + lines
                else:
                    a, b, doc = list(lines), list(gl), []
                    while a or b:
                        src = a if (a and (not b or rng.random() < len(a) / (len(a) + len(b)))) else b
                        doc.append(src.pop(0))
                ctx.count("multiline_groups_before_their_items")
            rr = call(ctx, "Gfa(list)", gfapy.Gfa, doc, version="gfa2")
            ctx.count("multiline_orders")
            if not rr.ok:
                ctx.violation("multiline-group-refused/%s" % rr.cls(), "%r: %s" % (order, str(rr.exc)[:200]))
                return
            g = rr.value
            grp = g.line("g1")
            want_items = []
            want_tags = set()
            for gl in order:
                f = gl.split("\t")
                want_items += f[2].split(" ")
                want_tags.update(f[3:])
            if grp is None:
                ctx.violation("multiline-group-lost", repr(order))
                return
            got_items = [(x.name + x.orient) if isinstance(x, gfapy.OrientedLine) else x.name for x in grp.items]
            if got_items != want_items:
                ctx.violation("multiline-items-not-concatenated/%s" % grp.record_type,
                              "arrival order %r: items %r, expected %r" % (order, got_items, want_items))
                return
            got_tags = set(S.canon_tag(*t) for t in S.parse_line(str(grp), "gfa2").tags)
            wt = set(S.canon_tag(*S.TAGRE.fullmatch(t).groups()) for t in want_tags)
            if got_tags != wt:
                ctx.violation("multiline-tags-not-union/%s" % grp.record_type, "order %r: tags %r, expected %r" % (order, got_tags, wt))
                return
            # exactly one of the line objects is the group of the Gfa; the others are not
            # connected any more (an edit through them must not reach the Gfa)
            stale = [o for o in objs if o.is_connected() and o is not grp]
            if stale:
                ctx.violation("merged-group-line-still-connected/%s" % grp.record_type,
                              "arrival order %r: %d earlier line object(s) still claim to belong to the Gfa"
                              % (order, len(stale)))
                return
            for o in objs:
                if o is not grp:
                    ctx.count("stale_objects_checked")
                    call(ctx, "rename through an earlier line object", lambda: setattr(o, "name", "zz9"))
                    if g.line("g1") is not grp:
                        ctx.violation("edit-of-merged-line-object-reaches-gfa/%s" % grp.record_type, repr(order))
                        return
            if len(g.sets) + len(g.paths) != 1:
                ctx.violation("multiline-group-not-merged", "%r -> %r" % (order, [str(x) for x in g.sets + g.paths]))
                return
            if grp.record_type == "U":
                # the merged set resolves over the complete graph (every item is a line of the Gfa now)
                texts = {"g1": "U\tg1\t" + " ".join(want_items)}
                ws, we = model_induced(case, "g1", texts)
                r2 = call(ctx, "induced_segments_set", lambda: grp.induced_segments_set)
                ctx.count("induced_sets")
                if not r2.ok:
                    ctx.violation("induced_segments_set-raises/%s/multiline" % r2.cls(), "arrival order %r: %s" % (order, str(r2.exc)[:200]))
                    return
                if set(x.name for x in r2.value) != ws:
                    ctx.violation("induced_segments_set-differs/multiline", "arrival order %r: gfapy %r, model %r"
                                  % (order, sorted(x.name for x in r2.value), sorted(ws)))
                    return
        ctx.nontriv([case["lines"], groups])
        ctx.sample({"kind": kind, "groups": groups})
        return
    if kind == "multinested":
        return run_multinested(case, ctx, rng)
    doc = lines + groups
    rng.shuffle(doc)
    if rng.random() < 0.4:
        # the lines arrive one by one and every group present is queried after each arrival
        # (the answers while the graph is incomplete are not judged, they may be errors): what
        # the queries leave behind must not change the answers on the complete graph
        ctx.add("kinds", "queried-while-incomplete")
        g = gfapy.Gfa(version="gfa2", vlevel=rng.choice([0, 1]))
        for l in doc:
            ar = call(ctx, "add_line(str)", g.add_line, l)
            if not ar.ok:
                ctx.violation("valid-document-refused/%s" % ar.cls(), "%r: %s" % (doc, str(ar.exc)[:200]), prop="C01")
                return
            for grp in list(g.paths) + list(g.sets):
                for q in (("captured_path", "captured_segments") if grp.record_type == "O" else ("induced_set",)):
                    qr = call(ctx, q + " (incomplete graph)", lambda: getattr(grp, q))
                    ctx.count("early_queries")
                    if not qr.ok:
                        ctx.count("early_queries_refused")
    else:
        rr = call(ctx, "Gfa(list)", gfapy.Gfa, doc, version="gfa2", vlevel=level_of(ctx, doc))
        if not rr.ok:
            ctx.violation("valid-document-refused/%s" % rr.cls(), "%r: %s" % (doc, str(rr.exc)[:200]), prop="C01")
            return
        g = rr.value
    texts = {gl.split("\t")[1]: gl for gl in groups}
    if case["expect"].get("_edge_ended_nested"):
        ctx.count("nested_paths_with_edge_ends")
    for name, exp in case["expect"].items():
        if name.startswith("_"):
            continue
        grp = g.line(name)
        if exp == "error":
            cp = call(ctx, "captured_path", lambda: grp.captured_path)
            ctx.count("rejected_lists" if not cp.ok else "broken_lists_accepted")
            if cp.ok:
                ctx.violation("non-contiguous-or-ambiguous-path-accepted", "%r resolves to %r; graph %r"
                              % (texts[name], [str(x) for x in cp.value], lines))
            ctx.nontriv([lines, texts[name]])
            continue
        if exp == "set":
            ws, we = model_induced(case, name, texts)
            for what, want in (("induced_segments_set", ws), ("induced_edges_set", we), ("induced_set", ws | we)):
                r2 = call(ctx, what, lambda: getattr(grp, what))
                ctx.count("induced_sets")
                if not r2.ok:
                    ctx.violation("%s-raises/%s" % (what, r2.cls()), "%r; groups %r; %s" % (texts[name], groups, str(r2.exc)[:200]))
                    return
                got = [x.name for x in r2.value]
                if set(got) != want or len(got) != len(set(got)):
                    ctx.violation("%s-differs" % what, "%r: gfapy %r, model %r; groups %r; edges %r"
                                  % (texts[name], sorted(got), sorted(want), groups, case["edges"]))
                    return
            ctx.nontriv([lines, groups, name])
            continue
        # a walk
        walk = [tuple(w) for w in exp]
        cp = call(ctx, "captured_path", lambda: grp.captured_path)
        ctx.count("captured_paths")
        for w in walk:
            ctx.add("item_kinds", ("S" if w[0] in case["segs"] else "E") + w[1])
        if not cp.ok:
            ctx.violation("captured_path-raises/%s/%s" % (cp.cls(), kind), "%r (groups %r) should resolve to %r; graph %r: %s"
                          % (texts[name], groups, walk, lines, str(cp.exc)[:200]))
            return
        got = [(x.name, x.orient) for x in cp.value]
        if got != walk:
            ctx.violation("captured_path-differs/%s" % kind, "%r (groups %r): gfapy %r, expected %r; graph %r"
                          % (texts[name], groups, got, walk, lines))
            return
        cs = call(ctx, "captured_segments", lambda: [(x.name, x.orient) for x in grp.captured_segments])
        ce = call(ctx, "captured_edges", lambda: [(x.name, x.orient) for x in grp.captured_edges])
        if not cs.ok or cs.value != walk[::2] or not ce.ok or ce.value != walk[1::2]:
            ctx.violation("captured-segments-or-edges-differ", "%r: %r / %r" % (texts[name], cs.value if cs.ok else cs.cls(), ce.value if ce.ok else ce.cls()))
            return
        if kind == "nested" or len(texts[name].split("\t")[2].split(" ")) < len(walk) or any(w[1] == "-" for w in walk):
            ctx.nontriv([lines, groups, name])
    ctx.sample({"kind": kind, "groups": groups, "graph": lines[-4:]})
