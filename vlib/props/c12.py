"""C12 — a link and its complement are one edge."""
import itertools
import gfapy
from ..gen import docs as G
from ..spec import grammar as S
from ..mon import hooks
from ..mon.client import call

from ..ctx import level_of

ID = "C12"
OPS = "MIDP=XH"
OPS_SN = OPS      # (S and N are outside the claim: see the quantifier of C12)


def setup(ctx):
    hooks.RATE = 3


def all_short_cigars():
    out = ["*"]
    for a in OPS_SN:
        for n in (1, 3):
            out.append("%d%s" % (n, a))
    for a, b in itertools.permutations(OPS_SN, 2):
        out.append("2%s1%s" % (a, b))
    return out


def cases(rng, tier, shard, nshards):
    # stratum 1: every orientation pair x {distinct segments, self-link} x all 1- and 2-operation CIGARs
    i = 0
    for (fo, to) in itertools.product("+-", repeat=2):
        for (f, t) in (("A", "B"), ("A", "A"), ("B", "A")):
            for ov in all_short_cigars():
                if i % nshards == shard:
                    yield {"k": "link", "f": f, "fo": fo, "t": t, "to": to, "ov": ov, "tags": [], "exh": True}
                i += 1
    yield {"k": "marker-exhaustive-done"}
    while True:
        f, t = rng.choice([("A", "B"), ("A", "A"), ("B", "A"), ("A", "C")])
        ov = "*" if rng.random() < 0.15 else G.cigar1(rng, nops=rng.randint(1, 6), ops=OPS if rng.random() < 0.85 else OPS_SN)
        tags = [("ID", "Z", "l1")] if rng.random() < 0.3 else []
        if rng.random() < 0.3:
            tags.append(("xx", "i", str(rng.randint(0, 9))))
        yield {"k": rng.choice(["link", "graph", "path", "path"]), "f": f, "fo": rng.choice("+-"), "t": t,
               "to": rng.choice("+-"), "ov": ov, "tags": tags, "seed": rng.getrandbits(32),
               "order": rng.randrange(6), "circular": rng.random() < 0.3, "pov": rng.choice(["*", "same"])}


def ltext(c, comp=False):
    pos = [c["f"], c["fo"], c["t"], c["to"], c["ov"]]
    if comp:
        pos = S.link_complement_pos(pos)
    return "\t".join(["L"] + pos + ["%s:%s:%s" % t for t in c["tags"]])


def run(case, ctx):
    if case["k"] == "marker-exhaustive-done":
        ctx.notes["exhaustive_stratum"] = "complete"
        ctx.count("exhaustive_strata_completed")
        return
    lt, ct = ltext(case), ltext(case, True)
    selfcomp = S.link_complement_pos(lt.split("\t")[1:6]) == lt.split("\t")[1:6]
    nontrivial = case["ov"] != "*" and S.cigar_complement(case["ov"]) != case["ov"]
    r = call(ctx, "Line(L)", gfapy.Line, lt)
    if not r.ok:
        ctx.violation("valid-link-refused/" + r.cls(), lt)
        return
    l = r.value
    # --- algebra on stand-alone lines
    rc = call(ctx, "complement", l.complement)
    ctx.count("complements")
    if not rc.ok:
        ctx.violation("complement-raises/" + rc.cls(), lt)
        return
    c = rc.value
    if str(l) != lt:
        ctx.violation("complement-mutates-receiver", "%r became %r" % (lt, str(l)))
        return
    if str(c) != ct:
        ctx.violation("complement-wrong/%s" % _which(str(c), ct), "complement of %r is %r, expected %r" % (lt, str(c), ct))
        return
    rcc = call(ctx, "complement", c.complement)
    if not rcc.ok or str(rcc.value) != lt:
        ctx.violation("complement-not-involutive", "%r -> %r -> %r" % (lt, ct, rcc.value if rcc.ok else rcc.cls()))
        return
    if case["ov"] != "*":
        a, b = l.overlap, c.overlap
        if (a.length_on_reference(), a.length_on_query()) != (b.length_on_query(), b.length_on_reference()):
            ctx.violation("complement-lengths", "%s: (%d,%d) vs complement (%d,%d)"
                          % (case["ov"], a.length_on_reference(), a.length_on_query(),
                             b.length_on_reference(), b.length_on_query()))
            return
        want = (G.cigar_ref_len(case["ov"]), G.cigar_query_len(case["ov"]))
        if (a.length_on_reference(), a.length_on_query()) != want:
            ctx.violation("cigar-lengths", "%s: got (%d,%d) want %r" % (case["ov"], a.length_on_reference(),
                                                                      a.length_on_query(), want))
            return
    # equivalence tests: symmetric, repeatable
    tests = {}
    for name, x, y in (("is_complement", l, c), ("is_complement", c, l), ("is_eql", l, c), ("is_eql", c, l),
                       ("is_same", l, l), ("is_same", l, c), ("is_same", c, l), ("is_eql", l, l),
                       ("is_complement", l, l)):
        v1 = call(ctx, name, getattr(x, name), y)
        v2 = call(ctx, name, getattr(x, name), y)
        ctx.count("equivalence_tests")
        if not v1.ok or not v2.ok or bool(v1.value) != bool(v2.value):
            ctx.violation("equivalence-unstable/" + name, "%s(%r,%r): %r then %r" % (name, str(x), str(y), v1, v2))
            return
        tests.setdefault(name, []).append(bool(v1.value))
    exp = {"is_complement": [True, True, selfcomp], "is_eql": [True, True, True],
           "is_same": [True, selfcomp, selfcomp]}
    for name in exp:
        if tests[name] != exp[name]:
            ctx.violation("equivalence-wrong/%s" % name, "%s on %r / %r: got %r expected %r"
                          % (name, lt, ct, tests[name], exp[name]))
            return
    if str(l) != lt or str(c) != ct:
        ctx.violation("equivalence-test-mutates", "%r %r" % (str(l), str(c)))
        return
    vc = call(ctx, "is_compatible", l.is_compatible, c.oriented_from, c.oriented_to, c.overlap, True)
    vd = call(ctx, "is_compatible", l.is_compatible, c.oriented_from, c.oriented_to, c.overlap, False)
    if not vc.ok or not vc.value or (vd.ok and bool(vd.value) != selfcomp):
        ctx.violation("is_compatible-wrong", "link %r vs its complement: allow_complement=True -> %r, False -> %r"
                      % (lt, vc, vd))
        return
    if case["ov"] != "*":
        # the overlap of a stand-alone link is edited in place (documented: the operations of a CIGAR
        # can be changed): the complement follows the edit, whatever was asked before
        er = call(ctx, "overlap[0].length += 2", lambda: setattr(l.overlap[0], "length", l.overlap[0].length + 2))
        if er.ok:
            lt2 = str(l)
            ct2 = "\t".join(["L"] + S.link_complement_pos(lt2.split("\t")[1:6]) + lt2.split("\t")[6:])
            rc2 = call(ctx, "complement (after an in-place edit)", l.complement)
            ctx.count("complements_after_edit")
            if not rc2.ok or str(rc2.value) != ct2:
                ctx.violation("complement-stale-after-edit", "%r edited in place to %r: complement %r, expected %r"
                              % (lt, lt2, str(rc2.value) if rc2.ok else rc2.cls(), ct2))
                return
            rcc2 = call(ctx, "complement", rc2.value.complement)
            if not rcc2.ok or str(rcc2.value) != lt2:
                ctx.violation("complement-not-involutive/after-edit", "%r -> %r -> %r" % (lt2, ct2, str(rcc2.value) if rcc2.ok else rcc2.cls()))
                return
            ic = call(ctx, "is_complement", l.is_complement, rc2.value)
            if not ic.ok or not ic.value:
                ctx.violation("equivalence-wrong/is_complement/after-edit", "%r vs %r" % (lt2, ct2))
                return
    if nontrivial:
        if case.get("exh"):
            ctx.nontriv_enum()
        else:
            ctx.nontriv([lt, case["k"], case.get("order"), case.get("circular")])
    if case["k"] == "link":
        ctx.sample({"link": lt, "complement": ct})
        return
    # --- graph level
    segs = sorted(set([case["f"], case["t"], "A", "B", "C"]))
    base = ["S\t%s\t*" % s for s in segs]
    if case["k"] == "graph":
        for first, second in ((lt, ct), (ct, lt)):
            r = call(ctx, "Gfa(list)", gfapy.Gfa, base + [first], version="gfa1", vlevel=level_of(ctx, base + [first]))
            if not r.ok:
                ctx.violation("valid-document-refused/" + r.cls(), repr(base + [first]), prop="C01")
                return
            g = r.value
            before = [str(x) for x in g.dovetails]
            ra = call(ctx, "add_line(complement)", g.add_line, second)
            ctx.count("complement_additions")
            if not ra.ok:
                ctx.violation("adding-complement-raises/" + ra.cls(), "stored %r, added %r: %s"
                              % (first, second, str(ra.exc)[:200]))
                return
            after = [str(x) for x in g.dovetails]
            if after != before:
                ctx.violation("adding-complement-changes-graph", "stored %r, added %r: dovetails %r -> %r"
                              % (first, second, before, after))
                return
            # a link differing in anything but this symmetry is a different edge
            other = dict(case)
            k = case["seed"] % 3
            if k == 0:
                other["fo"] = S.inv(case["fo"])
            elif k == 1:
                other["t"] = "C" if case["t"] != "C" else "B"
            else:
                other["ov"] = "9M8D" if case["ov"] != "9M8D" else "7M"
            other["tags"] = []
            ot = ltext(other)
            if S.link_complement_pos(ot.split("\t")[1:6]) in (first.split("\t")[1:6],) or ot.split("\t")[1:6] == first.split("\t")[1:6]:
                continue
            if k == 2 and case["ov"] == "*":
                continue        # parallel link with * overlap: UNSPECIFIED
            ro = call(ctx, "add_line(other)", g.add_line, ot)
            if not ro.ok:
                ctx.violation("different-link-refused/%s" % ro.cls(), "stored %r, added %r" % (first, ot))
                return
            if len(g.dovetails) != len(before) + 1:
                ctx.violation("different-link-merged", "stored %r, added %r: %r" % (first, ot, [str(x) for x in g.dovetails]))
                return
        ctx.sample({"stored": lt, "added": ct})
        return
    # --- paths over the link, either direction, every arrival order of P / L (either form)
    fwd = [(case["f"], case["fo"]), (case["t"], case["to"])]
    rev = [(case["t"], S.inv(case["to"])), (case["f"], S.inv(case["fo"]))]
    for direction, walk in (("fwd", fwd), ("rev", rev)):
        stored_form = lt if case["seed"] % 2 == 0 else ct
        if case["pov"] == "*" or case["ov"] == "*":
            pov = "*"
        else:
            pov = case["ov"] if direction == "fwd" else S.cigar_complement(case["ov"])
        p = "P\tp\t%s\t%s" % (",".join(n + o for n, o in walk), pov)
        docs = [base + [stored_form, p], base + [p, stored_form], [p] + base + [stored_form], [p, stored_form] + base,
                [stored_form, p] + base, [stored_form] + base + [p]]
        doc = docs[case["order"] % len(docs)]
        r = call(ctx, "Gfa(list)", gfapy.Gfa, doc, version="gfa1", vlevel=level_of(ctx, doc))
        ctx.count("path_resolutions")
        if not r.ok:
            ctx.violation("path-over-link-refused/%s/%s" % (direction, r.cls()), "%r: %s" % (doc, str(r.exc)[:200]))
            return
        g = r.value
        path = g.line("p")
        links = path.links
        if len(links) != 1 or links[0].line.virtual:
            ctx.violation("path-link-not-found/%s" % direction, "%r: links=%r" % (doc, [str(x) for x in links]))
            return
        ol = links[0]
        st = ol.line
        # interpret the flag: the stored link, read as flagged, must lead from item 0 to item 1
        sf = (st.from_segment.name, st.from_orient, st.to_segment.name, st.to_orient)
        if ol.orient == "-":
            sf = (sf[2], S.inv(sf[3]), sf[0], S.inv(sf[1]))
        if sf != (walk[0][0], walk[0][1], walk[1][0], walk[1][1]):
            ctx.violation("path-direction-flag-wrong/%s" % direction,
                          "%r: stored %r flagged %s does not lead from %r to %r" % (doc, str(st), ol.orient, walk[0], walk[1]))
            return
        if pov != "*" and case["ov"] != "*":
            sov = str(st.overlap) if ol.orient == "+" else S.cigar_complement(str(st.overlap))
            if sov != pov:
                ctx.violation("path-direction-flag-overlap/%s" % direction,
                              "%r: stored %r flagged %s reads overlap %s, path says %s" % (doc, str(st), ol.orient, sov, pov))
                return
        if len(g.dovetails) != 1:
            ctx.violation("path-duplicates-link", repr([str(x) for x in g.dovetails]))
            return
    # two paths which state different overlaps for the step arrive before the link, which is written
    # in either of its two forms with an unspecified overlap: it is the link of both paths
    f, fo, t, to = case["f"], case["fo"], case["t"], case["to"]
    if f != t or fo == to:
        for form in ("as-written", "complement"):
            lk = ("L\t%s\t%s\t%s\t%s\t*" % (f, fo, t, to)) if form == "as-written" else \
                 ("L\t%s\t%s\t%s\t%s\t*" % (t, S.inv(to), f, S.inv(fo)))
            segs = list(dict.fromkeys(["S\t%s\t*" % f, "S\t%s\t*" % t]))
            doc = segs + ["P\tp1\t%s%s,%s%s\t5M" % (f, fo, t, to),
                          "P\tp2\t%s%s,%s%s\t3M1D" % (t, S.inv(to), f, S.inv(fo)), lk]
            r = call(ctx, "Gfa(list)", gfapy.Gfa, doc, vlevel=1)
            ctx.count("placeholder_links_of_two_paths")
            if not r.ok:
                ctx.violation("paths-before-link-refused/%s/%s" % (form, r.cls()), "%r: %s" % (doc, str(r.exc)[:200]))
                return
            real = [l for l in r.value.dovetails if not l.virtual]
            virt = [l for l in r.value.dovetails if l.virtual]
            l1, l2 = r.value.line("p1").links, r.value.line("p2").links
            if virt or len(real) != 1 or l1[0].line is not real[0] or l2[0].line is not real[0] or \
                    (l1[0].orient == l2[0].orient and (f, fo) != (t, S.inv(to))):
                ctx.violation("paths-before-link-not-on-it/%s" % form, "%r: links of p1 %r, of p2 %r, placeholders %r"
                              % (doc, [str(x) for x in l1], [str(x) for x in l2], [str(x) for x in virt]))
                return
    ctx.sample({"link": lt, "paths": "both directions", "order": case["order"]})


def _which(got, want):
    g, w = got.split("\t"), want.split("\t")
    for i, name in enumerate(["rt", "from", "from_orient", "to", "to_orient", "overlap"]):
        if i < len(g) and i < len(w) and g[i] != w[i]:
            return name
    return "tags"
