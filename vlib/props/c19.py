"""C19 — a clone is an equal, detached and fully independent line."""
import random
import gfapy
from ..gen import docs as G
from ..mon import hooks
from ..mon import obs as O
from ..mon.client import call

ID = "C19"
MUTABLE = (list, dict, gfapy.OrientedLine, gfapy.FieldArray, gfapy.SegmentEnd)
# everything else which is not one of these counts as mutable too (an object with attributes,
# e.g. gfapy.LastPos with its writable 'value')
IMMUTABLE = (int, float, str, bytes, bool, type(None), gfapy.Placeholder, gfapy.Line)


def setup(ctx):
    hooks.RATE = 9


def cases(rng, tier, shard, nshards):
    while True:
        if rng.random() < 0.08:
            # segments with array- and JSON-valued tags (also under the origin tag) which get multiplied
            version = rng.choice(["gfa1", "gfa2"])
            names = ["a", "b", "c"]
            lines = []
            for n in names:
                tg = rng.sample(["or:J:[\"s1\", \"s2\"]", "or:Z:s1,s2", "xj:J:{\"k\": [1, 2]}", "xb:B:c,1,2", "xh:H:0A1B", "xi:i:5",
                                 "mp:B:C,1,14"], rng.randint(1, 3))
                tg = [t for i, t in enumerate(tg) if t[:2] not in [u[:2] for u in tg[:i]]]
                lines.append(("S\t%s\t*\tLN:i:9" % n if version == "gfa1" else "S\t%s\t9\t*" % n) + "\t" + "\t".join(tg))
            lines.append("L\ta\t+\tb\t-\t3M" if version == "gfa1" else "E\t*\ta+\tb-\t6\t9$\t6\t9$\t3M")
            yield {"k": "copies", "version": version, "lines": lines, "vlevel": rng.choice([1, 1, 2, 3]), "seed": rng.getrandbits(32)}
            continue
        canonical = rng.random() < 0.7
        d = G.gen_doc(rng, canonical=canonical)
        lines = d.lines()
        yield {"version": d.version, "lines": lines, "vlevel": rng.choice([0, 1, 1, 2, 3]), "canonical": canonical,
               "connected": rng.random() < 0.7, "seed": rng.getrandbits(32)}


def fields_of(x):
    return list(x.positional_fieldnames) + list(x.tagnames)


def mutable_parts(v, path="", depth=0):
    """(path, object) for every mutable object reachable from a field value."""
    out = []
    if depth > 5:
        return out
    if isinstance(v, gfapy.CIGAR.Operation):
        out.append((path + "/op", v))
        return out
    if isinstance(v, MUTABLE) or not isinstance(v, IMMUTABLE):
        out.append((path, v))
    if isinstance(v, (list, tuple)) and not isinstance(v, (str, bytes)):
        for i, e in enumerate(v):
            out += mutable_parts(e, path + "[]", depth + 1)
    elif isinstance(v, dict):
        for k, e in v.items():
            out += mutable_parts(e, path + "{}", depth + 1)
    elif isinstance(v, gfapy.FieldArray):
        for e in v:
            out += mutable_parts(e, path + "[]", depth + 1)
    return out


def edit_in_place(rng, line, fname):
    """try to change the value of a field of `line` through its own object; returns a label or None."""
    v = line.get(fname)
    if isinstance(v, gfapy.CIGAR) and len(v) > 0:
        if rng.random() < 0.5:
            v[0].length = v[0].length + 7
            return "cigar-op-length"
        v.append(gfapy.CIGAR.Operation(3, "M"))
        return "cigar-append"
    if isinstance(v, gfapy.OrientedLine):
        v.orient = "-" if v.orient == "+" else "+"
        return "orientedline-orient"
    if isinstance(v, gfapy.LastPos):
        v.value = v.value + 3
        return "lastpos-value"
    if isinstance(v, dict):
        v["verif"] = [1]
        return "json-dict-insert"
    if isinstance(v, gfapy.NumericArray):
        v.append(v[0])
        return "numeric-array-append"
    if isinstance(v, list) and v:
        e = v[0]
        if isinstance(e, gfapy.OrientedLine):
            e.orient = "-" if e.orient == "+" else "+"
            return "list-orientedline-orient"
        if isinstance(e, gfapy.CIGAR) and len(e) > 0:
            e[0].length = e[0].length + 5
            return "list-cigar-op-length"
        if isinstance(e, list):
            e.append(0)
            return "json-nested-append"
        if isinstance(e, dict):
            e["verif"] = 1
            return "json-nested-insert"
        if isinstance(e, (int, float, str)) and not isinstance(v, gfapy.Trace):
            v.append(e)
            return "list-append"
        if isinstance(v, gfapy.Trace):
            v.append(1)
            return "trace-append"
    return None


def run_copies(case, ctx):
    """the copies which multiply() makes of a segment (it clones it) share no mutable value with the
    original: origin tracking, array- and JSON-valued tags."""
    rng = random.Random(case["seed"])
    r = call(ctx, "Gfa(list)", gfapy.Gfa, case["lines"], vlevel=case["vlevel"], version=case["version"])
    if not r.ok:
        return
    g = r.value
    segs = [s for s in g.segments]
    if not segs:
        return
    s0 = rng.choice(segs)
    name = s0.name
    kw = rng.choice([{}, {"track_origin": True}, {"track_origin": True, "origin_tag": "or"}, {"extended": True}])
    before_names = set(g.segment_names)
    m = call(ctx, "multiply", g.multiply, name, rng.choice([2, 3]), **kw)
    if not m.ok:
        return
    copies = [g.segment(n) for n in set(g.segment_names) - before_names]
    ctx.count("copies_made_by_multiply", len(copies))
    family = [g.segment(name)] + copies
    seen = {}
    for x in family:
        for f in fields_of(x):
            try:
                v = x.get(f)
            except gfapy.Error:
                continue
            for pth, o in mutable_parts(v, f):
                if id(o) in seen and seen[id(o)][0] is not x:
                    ctx.violation("aliased/copy-made-by-multiply/%s/%s" % (x.get_datatype(f), type(o).__name__),
                                  "multiply(%r, ..., %r): field %s of %r shares a %s with %r"
                                  % (name, kw, f, x.name, type(o).__name__, seen[id(o)][0].name))
                    return
                seen[id(o)] = (x, f)
    # edit a mutable tag value of one copy in place: the others keep their text
    texts = {x.name: O.safe_str(x) for x in family}
    for x in family:
        for f in list(x.tagnames):
            try:
                lab = edit_in_place(rng, x, f)
            except gfapy.Error:
                lab = None
            if lab:
                for y in family:
                    if y is not x and O.safe_str(y) != texts[y.name]:
                        ctx.violation("edit-of-copy-affects-sibling/%s" % lab, "%s of %r edited (%s): %r became %r"
                                      % (f, x.name, lab, texts[y.name], O.safe_str(y)))
                        return
                texts[x.name] = O.safe_str(x)
    ctx.nontriv([case["lines"], name, sorted(kw)])


def run(case, ctx):
    if case.get("k") == "copies":
        return run_copies(case, ctx)
    rng = random.Random(case["seed"])
    version = case["version"]
    if case["connected"]:
        r = call(ctx, "Gfa(list)", gfapy.Gfa, case["lines"], vlevel=case["vlevel"], version=version)
        if not r.ok:
            ctx.violation("valid-document-refused/" + r.cls(), str(r.exc)[:200], prop="C01")
            return
        g = r.value
        lines = [l for l in g.lines if l.record_type != "H"] + [g.header]
    else:
        g = None
        lines = []
        for l in case["lines"]:
            rt = l.split("\t")[0]
            kw = {} if (rt in ("H", "S") or rt.startswith("#")) else {"version": version}
            lr = call(ctx, "Line(str)", gfapy.Line, l, vlevel=case["vlevel"], **kw)
            if lr.ok:
                lines.append(lr.value)
    for x in lines:
        rt = x.record_type if len(x.record_type) == 1 else "custom"
        before_x = O.safe_str(x)
        before_g = O.safe_str(g) if g is not None else None
        rc = call(ctx, "clone", x.clone)
        ctx.count("clones")
        ctx.count("clone:" + rt)
        if not rc.ok:
            ctx.violation("clone-raises/%s/%s" % (rt, rc.cls()), before_x + " :: " + str(rc.exc)[:200])
            continue
        c = rc.value
        if c.is_connected() or c.gfa is not None:
            ctx.violation("clone-connected/" + rt, before_x)
            continue
        if O.safe_str(c) != before_x and rt != "H":
            ctx.violation("clone-text-differs/" + ("custom" if x.__class__.__name__ == "CustomRecord" else rt),
                          "%r vs clone %r" % (before_x, O.safe_str(c)))
            continue
        eq = call(ctx, "==", lambda: (c == x, x == c))
        if not eq.ok or eq.value != (True, True):
            ctx.violation("clone-not-equal/" + rt, "%r: (clone == original, original == clone) = %r" % (before_x, eq.value if eq.ok else eq.cls()))
            continue
        if O.safe_str(x) != before_x:
            ctx.violation("clone-mutates-receiver/" + rt, before_x, prop="C10")
        if case.get("canonical") and rt != "H":
            # reading a field is not an edit: after a read on one copy only (a lazily stored field is
            # then a string in one copy and an object in the other) the two still compare equal
            c1 = call(ctx, "clone", x.clone)
            fs1 = fields_of(x)
            if c1.ok and fs1:
                f1 = rng.choice(fs1)
                which = rng.choice([x, c1.value])
                call(ctx, "get (one copy only)", which.get, f1)
                eq1 = call(ctx, "==", lambda: (c1.value == x, x == c1.value))
                ctx.count("equalities_after_one_sided_read")
                if not eq1.ok or eq1.value != (True, True):
                    ctx.violation("clone-not-equal-after-read/%s/%s" % (rt, x.get_datatype(f1) if f1 in x.tagnames else f1),
                                  "%r: field %s read on %s only; (clone == original, original == clone) = %r"
                                  % (before_x, f1, "the original" if which is x else "the clone", eq1.value if eq1.ok else eq1.cls()))
                    continue
        # aliasing monitor over the public field values
        shared = []
        kinds = set()
        for f in fields_of(x):
            try:
                vx, vc = x.get(f), c.get(f)
            except gfapy.Error:
                continue
            px, pc = mutable_parts(vx, f), mutable_parts(vc, f)
            for _, o in px:
                kinds.add(type(o).__name__)
            ids = {id(o): p for p, o in px}
            for p, o in pc:
                if id(o) in ids:
                    shared.append((f, p, type(o).__name__))
        for k in kinds:
            ctx.add("cloned_mutable_kinds", rt + ":" + k)
        if shared:
            f, p, tn = shared[0]
            dt = x.get_datatype(f)
            ctx.violation("aliased/%s/%s/%s" % (rt, dt, tn), "%r: field %s shares a %s object with its clone (%s)"
                          % (before_x, f, tn, p))
            continue
        # edit scripts on either copy (snapshots are taken after the reads above: reading a
        # lazily stored, freely spelled field re-spells it, which is not an edit)
        before_x = O.safe_str(x)
        before_g = O.safe_str(g) if g is not None else None
        fs = fields_of(c)
        rng.shuffle(fs)
        edits = []
        for f in fs[:6]:
            try:
                lab = edit_in_place(rng, c, f)
            except gfapy.Error:
                lab = None
            if lab:
                edits.append(lab + "@clone")
        call(ctx, "set", c.set, "zz", "edited")
        for tn in list(c.tagnames)[:2]:
            call(ctx, "delete", c.delete, tn)
        if O.safe_str(x) != before_x or (g is not None and O.safe_str(g) != before_g):
            ctx.violation("edit-of-clone-affects-original/%s/%s" % (rt, "+".join(sorted(set(e.split("@")[0] for e in edits))) or "tags"),
                          "%r became %r after editing its clone (%s)" % (before_x, O.safe_str(x), edits))
            continue
        # vice versa: edit the original's tags / mutable tag values; a fresh clone must stay as it was
        rc2 = call(ctx, "clone", x.clone)
        if not rc2.ok:
            continue
        c2 = rc2.value
        c2_text = O.safe_str(c2)
        edits2 = []
        for f in list(x.tagnames):
            if x.get_datatype(f) in ("J", "B"):
                try:
                    lab = edit_in_place(rng, x, f)
                except gfapy.Error:
                    lab = None
                if lab:
                    edits2.append(lab + "@original")
        if x.record_type not in ("#",) and not x.virtual:
            call(ctx, "set", x.set, "zy", 5)
            edits2.append("set-tag@original")
        if O.safe_str(c2) != c2_text:
            ctx.violation("edit-of-original-affects-clone/%s/%s" % (rt, "+".join(sorted(set(e.split("@")[0] for e in edits2)))),
                          "clone %r became %r after editing the original (%s)" % (c2_text, O.safe_str(c2), edits2))
            continue
        ctx.count("edit_scripts")
        if kinds:
            ctx.nontriv([before_x, case["vlevel"], case["connected"]])
    ctx.sample({"lines": case["lines"][:5], "vlevel": case["vlevel"], "connected": case["connected"]})
