"""C16 — connected components and topology counts agree with the graph."""
import random
import gfapy
from ..gen import docs as G
from ..spec import grammar as S
from ..spec import textmodel as T
from ..spec import edges as E
from ..mon import hooks
from ..mon.client import call
from . import topo

from ..ctx import level_of

ID = "C16"


def setup(ctx):
    hooks.RATE = 10
    from . import history as H
    H.PROBE_RATE = 0.4


def shaped_graph(rng, version):
    """isolated segments, trees, cycles, self links, hairpins, parallel edges, containment-only and
    internal-only relations."""
    n = rng.randint(1, 8)
    names = ["s%d" % i for i in range(n)]
    lines = []
    for s in names:
        lines.append("S\t%s\t*\tLN:i:%d" % (s, rng.randint(1, 30)) if version == "gfa1" else "S\t%s\t%d\t*" % (s, 20))
    ne = rng.randint(0, n + 3)
    feats = set()

    def edge(a, oa, b, ob, kind="L"):
        if version == "gfa1":
            if kind == "C":
                if a == b:
                    return None
                return "C\t%s\t%s\t%s\t%s\t0\t*" % (a, oa, b, ob)
            return "L\t%s\t%s\t%s\t%s\t%s" % (a, oa, b, ob, rng.choice(["*", "2M", "1M1I"]))
        if kind == "C":
            return "E\t*\t%s%s\t%s%s\t2\t7\t0\t20$\t*" % (a, oa, b, ob)
        if kind == "I":
            return "E\t*\t%s%s\t%s%s\t2\t7\t3\t9\t*" % (a, oa, b, ob)
        # dovetail: sfx-role of a with pfx-role of b
        i1 = ("15", "20$") if oa == "+" else ("0", "5")
        i2 = ("0", "5") if ob == "+" else ("15", "20$")
        return "E\t*\t%s%s\t%s%s\t%s\t%s\t%s\t%s\t*" % (a, oa, b, ob, i1[0], i1[1], i2[0], i2[1])
    seen = set()
    for _ in range(ne):
        k = rng.random()
        a, b = rng.choice(names), rng.choice(names)
        oa, ob = rng.choice("+-"), rng.choice("+-")
        kind = "L"
        if k < 0.12:
            b = a
            feats.add("self-link")
            if oa != ob:
                feats.add("hairpin")
        elif k < 0.25:
            kind = "C"
            feats.add("containment")
        elif k < 0.35 and version == "gfa2":
            kind = "I"
            feats.add("internal")
        l = edge(a, oa, b, ob, kind)
        if l is None:
            continue
        key = tuple(l.split("\t")[1:5]) if version == "gfa1" else tuple(l.split("\t")[2:4])
        ck = (key[2], S.inv(key[3]), key[0], S.inv(key[1])) if version == "gfa1" else None
        if version == "gfa1" and kind == "L" and (key in seen or ck in seen):
            feats.add("parallel-skipped")
            continue
        if key in seen:
            feats.add("parallel")
        seen.add(key)
        lines.append(l)
    return lines, sorted(feats)


def cases(rng, tier, shard, nshards):
    from . import history as H
    while True:
        if rng.random() < 0.25:
            c = H.gen_history(rng, nsteps=rng.randint(3, 12), failing=0.3, fanout=True, tags=False)
            c["k"] = "history"
            yield c
            continue
        version = rng.choice(["gfa1", "gfa2"])
        if rng.random() < 0.004:
            # a large graph: the answer must not depend on the size (a chain of thousands of
            # segments is an ordinary assembly graph)
            n = rng.choice([300, 900, 1100, 2500, 4000])
            shape = rng.choice(["chain", "ring", "chain-reversed", "two-chains"])
            names = ["n%d" % i for i in range(n)]
            lines = [("S\t%s\t*\tLN:i:5" % x) if version == "gfa1" else ("S\t%s\t20\t*" % x) for x in names]
            pairs = [(names[i], names[i + 1]) for i in range(n - 1)]
            if shape == "ring":
                pairs.append((names[-1], names[0]))
            if shape == "two-chains":
                pairs.pop(n // 2)
            for a, b in pairs:
                if shape == "chain-reversed":
                    a, b = b, a
                lines.append("L\t%s\t+\t%s\t+\t*" % (a, b) if version == "gfa1"
                             else "E\t*\t%s+\t%s+\t15\t20$\t0\t5\t*" % (a, b))
            if rng.random() < 0.5:
                rng.shuffle(lines)
            yield {"version": version, "lines": lines, "feats": ["large", "large-" + shape], "seed": rng.getrandbits(32),
                   "nmut": rng.choice([0, 1]), "minlen": None}
            continue
        if rng.random() < 0.7:
            lines, feats = shaped_graph(rng, version)
        else:
            d = G.gen_doc(rng, version=version, tags=False, comments=False, header=False)
            lines, feats = d.lines(), ["generic"]
        yield {"version": version, "lines": lines, "feats": feats, "seed": rng.getrandbits(32),
               "nmut": rng.choice([0, 0, 1, 2, 4]), "minlen": rng.choice([None, None, 10, 25, 60])}


def run(case, ctx):
    if case.get("k") == "history":
        from . import history as H

        def judge(g, model, st):
            ctx.count("checks_after_history_step")
            return topo.check_topology(ctx, g, model.text_lines(), case["version"])
        shape = H.run_history(case, ctx, compare_every=False, after_step=judge)
        ctx.count("histories")
        if any(x.startswith("rename") or "cascade" in x for x in shape):
            ctx.nontriv(case["steps"])
        return
    version, lines = case["version"], case["lines"]
    rng = random.Random(case["seed"])
    r = call(ctx, "Gfa(list)", gfapy.Gfa, lines, version=version, vlevel=level_of(ctx, lines))
    if not r.ok:
        ctx.violation("valid-document-refused/%s" % r.cls(), "%r: %s" % (lines, str(r.exc)[:200]), prop="C01")
        return
    g = r.value
    topo.check_topology(ctx, g, lines, version)
    ctx.count("graphs_checked")
    if "large" in case["feats"]:
        ctx.count("large_graphs_checked")
    model = T.Model(version, lines)
    ncomp = len(E.components(model.recs, version))
    if ncomp >= 2 and any(f in case["feats"] for f in ("self-link", "hairpin", "parallel", "containment", "internal")):
        ctx.nontriv(lines)
    for f in case["feats"]:
        ctx.add("shapes", f)
    # after mutation histories: remove random lines on both sides
    for _ in range(case["nmut"]):
        cand = [x for x in model.recs if x.rt in ("S", "L", "E", "C")]
        if not cand:
            break
        x = rng.choice(cand)
        if x.rt == "S":
            rr = call(ctx, "rm", g.rm, x.pos[0])
        else:
            target = None
            want = topo.rkey(x, version)
            for l in g.edges:
                if topo.ckey(l, version) == want:
                    target = l
                    break
            if target is None:
                return
            rr = call(ctx, "disconnect", target.disconnect)
        if not rr.ok:
            ctx.violation("legal-step-refused/rm/%s/%s" % (x.rt, rr.cls()), repr(x.text()), prop="C05")
            return
        model.remove(x)
        topo.check_topology(ctx, g, model.text_lines(), version)
        ctx.count("checks_after_mutation")
    # remove_small_components
    if case["minlen"] is not None:
        recs = model.recs
        comps = E.components(recs, version)
        lens = {}
        ok = True
        for rec in recs:
            if rec.rt == "S":
                if version == "gfa1":
                    t = rec.tag("LN")
                    if t is None:
                        ok = False
                        break
                    lens[rec.pos[0]] = int(t[1])
                else:
                    lens[rec.pos[0]] = int(rec.pos[1])
        if ok:
            keep = set()
            for c in comps:
                if sum(lens[s] for s in c) >= case["minlen"]:
                    keep |= set(c)
            rr = call(ctx, "remove_small_components", g.remove_small_components, case["minlen"])
            ctx.count("remove_small_components")
            if not rr.ok:
                ctx.violation("remove_small_components-raises/%s" % rr.cls(), "%r minlen=%d: %s"
                              % (model.text_lines(), case["minlen"], str(rr.exc)[:200]))
                return
            got = set(g.segment_names)
            if got != keep:
                ctx.violation("remove_small_components-wrong/%s" % ("kept-small" if got - keep else "removed-large"),
                              "minlen=%d: kept %r, model keeps %r; document %r"
                              % (case["minlen"], sorted(got), sorted(keep), model.text_lines()))
    ctx.sample({"version": version, "lines": lines, "features": case["feats"]})
