"""C09 — identifiers are unique; lookup and renaming stay coherent."""
import gfapy
from . import history as H
from ..mon import hooks
from ..mon.client import call

ID = "C09"


def setup(ctx):
    hooks.RATE = 1


def cases(rng, tier, shard, nshards):
    while True:
        yield H.gen_history(rng, nsteps=rng.randint(4, 14 if tier == "quick" else 30), failing=0.45,
                            fanout=False, tags=True)


def run(case, ctx):
    before = hooks.counts().get("unique_names_evals", 0)
    shape = H.run_history(case, ctx, compare_every=True)
    ctx.count("invariant_evaluations", hooks.counts().get("unique_names_evals", 0) - before)
    if any(s.startswith("F:duplicate-add") or s.startswith("F:rename-to-used") or s.startswith("rename")
           for s in shape):
        ctx.nontriv(case["steps"])
    for s in shape:
        if s.startswith("F:"):
            ctx.add("clash_shapes", s)
    ctx.sample(case)
