"""C09 — identifiers are unique; lookup and renaming stay coherent."""
import gfapy
from . import history as H
from ..mon import hooks
from ..mon.client import call

ID = "C09"


def setup(ctx):
    hooks.RATE = 1
    # refused calls which have started to create references (placeholders for identifiers they
    # mention) before the point of failure: the identifiers they alone mentioned are free again
    H.PROBE_RATE = 0.35


def cases(rng, tier, shard, nshards):
    while True:
        yield H.gen_history(rng, nsteps=rng.randint(4, 14 if tier == "quick" else 30), failing=0.45,
                            fanout=False, tags=True)


def run(case, ctx):
    before = hooks.counts().get("unique_names_evals", 0)
    def at_end(g, model):
        # an unused name is carried by no line and mentioned by none (the identifiers which are only
        # referred to are in use too: a line added under one of them takes the references over)
        from ..spec import textmodel as T
        for _ in range(2):
            r = call(ctx, "unused_name", g.unused_name)
            ctx.count("unused_names_asked")
            if not r.ok:
                return
            mentioned = {m for x in model.recs for m, role in T.mentions(x)}
            if r.value in model.names() or r.value in mentioned:
                ctx.violation("unused-name-in-use/%s" % ("carried" if r.value in model.names() else "mentioned"),
                              "unused_name() returned %r; the document carries %r and mentions %r"
                              % (r.value, sorted(model.names()), sorted(mentioned)))
                return
    shape = H.run_history(case, ctx, compare_every=True, at_end=at_end)
    ctx.count("invariant_evaluations", hooks.counts().get("unique_names_evals", 0) - before)
    if any(s.startswith("F:duplicate-add") or s.startswith("F:rename-to-used") or s.startswith("rename")
           for s in shape):
        ctx.nontriv(case["steps"])
    for s in shape:
        if s.startswith("F:"):
            ctx.add("clash_shapes", s)
    ctx.sample(case)
