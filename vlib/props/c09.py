"""C09 — identifiers are unique; lookup and renaming stay coherent."""
import gfapy
from . import history as H
from ..mon import hooks
from ..mon.client import call

ID = "C09"


def setup(ctx):
    hooks.RATE = 1
    # refused calls which have started to create references (placeholders for identifiers they
    # mention) before the point of failure: the identifiers they alone mentioned are free again
    H.PROBE_RATE = 0.35


def cases(rng, tier, shard, nshards):
    while True:
        yield H.gen_history(rng, nsteps=rng.randint(4, 14 if tier == "quick" else 30), failing=0.45,
                            fanout=False, tags=True)


def registry_coherent(ctx, g, when):
    """every identifier which a line of the Gfa carries is listed in names and looked up to that line."""
    try:
        lines = [l for l in g.lines if not l.virtual and l.record_type != "H"]
        names = set(n for n in g.names if isinstance(n, str))
    except Exception:
        return
    for l in lines:
        try:
            n = l.name
        except Exception:
            continue
        if not isinstance(n, str):
            continue
        ctx.count("carried_identifiers_looked_up")
        r = call(ctx, "line(name)", g.line, n)
        if not r.ok or r.value is not l:
            ctx.violation("carried-identifier-not-looked-up/%s/%s" % (when, l.record_type),
                          "%r carries the identifier %r; Gfa.line(%r) gives %r" % (str(l), n, n, str(r.value) if r.ok else r.cls()))
            return
        if n not in names:
            ctx.violation("carried-identifier-not-in-names/%s/%s" % (when, l.record_type),
                          "%r carries the identifier %r; names = %r" % (str(l), n, sorted(names)))
            return


def run(case, ctx):
    before = hooks.counts().get("unique_names_evals", 0)
    def at_end(g, model):
        # an unused name is carried by no line and mentioned by none (the identifiers which are only
        # referred to are in use too: a line added under one of them takes the references over)
        from ..spec import textmodel as T
        for _ in range(2):
            r = call(ctx, "unused_name", g.unused_name)
            ctx.count("unused_names_asked")
            if not r.ok:
                return
            mentioned = {m for x in model.recs for m, role in T.mentions(x)}
            if r.value in model.names() or r.value in mentioned:
                ctx.violation("unused-name-in-use/%s" % ("carried" if r.value in model.names() else "mentioned"),
                              "unused_name() returned %r; the document carries %r and mentions %r"
                              % (r.value, sorted(model.names()), sorted(mentioned)))
                return
    def at_end_all(g, model):
        at_end(g, model)
        registry_coherent(ctx, g, "at-end")
        if case["version"] == "gfa1" and len(case["steps"]) % 2 == 0:
            # a conversion gives the unnamed links and containments an identifier (documented): the
            # identifiers the lines then carry are looked up to those lines, too
            c = call(ctx, "to_gfa2_s", g.to_gfa2_s)
            ctx.count("conversions_then_lookups")
            registry_coherent(ctx, g, "after-conversion" if c.ok else "after-refused-conversion")
    shape = H.run_history(case, ctx, compare_every=True, at_end=at_end_all)
    ctx.count("invariant_evaluations", hooks.counts().get("unique_names_evals", 0) - before)
    if any(s.startswith("F:duplicate-add") or s.startswith("F:rename-to-used") or s.startswith("rename")
           for s in shape):
        ctx.nontriv(case["steps"])
    for s in shape:
        if s.startswith("F:"):
            ctx.add("clash_shapes", s)
    ctx.sample(case)
