"""C10 — read-only operations never modify anything (M5 purity guard over the catalogue)."""
import random
import gfapy
from ..gen import docs as G
from ..mon import catalogue as CAT
from ..mon import purity
from ..mon import hooks
from ..mon.client import call

ID = "C10"


def setup(ctx):
    hooks.RATE = 5
    ctx.notes["catalogue_size"] = len(CAT.Q)


def cases(rng, tier, shard, nshards):
    while True:
        version = rng.choice(["gfa1", "gfa2"])
        canonical = rng.random() < 0.6
        if version == "gfa1":
            d = G.gen_gfa1(rng, canonical=canonical, with_lengths=rng.random() < 0.5, nlinks=rng.randint(1, 8))
        elif rng.random() < 0.45:
            d = G.gen_gfa2_semantic(rng)
            canonical = True
        else:
            d = G.gen_gfa2(rng, canonical=canonical)
        lines = d.lines()
        rng.shuffle(lines)
        yield {"version": version, "lines": lines, "vlevel": rng.choice([0, 1, 1, 2, 3]), "canonical": canonical,
               "seed": rng.getrandbits(32), "ncalls": rng.randint(10, 40)}


def finish(ctx):
    ctx.notes["catalogue"] = len(CAT.names())


def _tc(version):
    from ..spec import grammar as S

    def fn(text):
        # a key such as "L=<text>" keeps its prefix
        pre = ""
        if len(text) > 2 and text[1] == "=" and text[0] == text[2]:
            pre, text = text[:2], text[2:]
        try:
            return pre + repr(S.canon_doc([text], version, split_headers=False))
        except Exception:
            return pre + text
    return fn


def run(case, ctx):
    r = call(ctx, "Gfa(list)", gfapy.Gfa, case["lines"], vlevel=case["vlevel"], version=case["version"])
    if not r.ok:
        ctx.violation("valid-document-refused/%s" % r.cls(), str(r.exc)[:300], prop="C01")
        return
    g = r.value
    rng = random.Random(case["seed"])
    nontrivial = False
    trace = []
    for _ in range(case["ncalls"]):
        lines = g.lines
        if rng.random() < 0.25 or not lines:
            obj, qs, extra = g, [(n, k, f) for n, k, f in CAT.Q if k == "gfa"], ()
        else:
            x = rng.choice(lines)
            if rng.random() < 0.15:
                # alignment value of an edge / fragment
                a = None
                for fn in ("overlap", "alignment"):
                    try:
                        a = x.get(fn)
                    except Exception:
                        a = None
                    if a is not None and not isinstance(a, str):
                        break
                if a is None or isinstance(a, (str, gfapy.Placeholder)) and not hasattr(a, "complement"):
                    continue
                obj, qs, extra = a, [(n, k, f) for n, k, f in CAT.Q if k == "aln"], (x, a)
                if isinstance(a, gfapy.CIGAR) and any(op.code in "ID" for op in a):
                    nontrivial = True
            else:
                obj, qs, extra = x, CAT.queries_for(x.record_type), (x,)
                if case["vlevel"] == 0 or not case["canonical"]:
                    nontrivial = True
        if not qs:
            continue
        name, kind, fn = rng.choice(qs)
        bad, r1 = purity.guarded_query(ctx, g, "%s.%s" % (kind, name), fn, obj, rng.getrandbits(32), extra,
                                       textcanon=None if case["canonical"] else _tc(case["version"]))
        ctx.count("guarded_calls")
        ctx.add("queries_exercised", "%s.%s" % (kind, name))
        if r1.ok:
            ctx.add("queries_returned", "%s.%s" % (kind, name))
        trace.append("%s.%s" % (kind, name))
        for key, detail in bad:
            ctx.violation(key, "%s\n  call sequence: %s" % (detail, trace[-6:]))
        if bad:
            return
    if nontrivial:
        ctx.nontriv([case["lines"], case["vlevel"], case["seed"]])
    ctx.sample({"lines": case["lines"][:6], "vlevel": case["vlevel"], "calls": trace[:15]})
