"""C10 — read-only operations never modify anything (M5 purity guard over the catalogue)."""
import random
import gfapy
from ..gen import docs as G
from ..mon import catalogue as CAT
from ..mon import purity
from ..mon import hooks
from ..mon.client import call

ID = "C10"


CANARY_DOCS = {
    "gfa2": ["H\tVN:Z:2.0", "S\ts1\t100\t*", "S\ts2\t50\tACGTACGTACGTACGTACGTACGTACGTACGTACGTACGTACGTACGTAC\txx:i:3",
             "S\ts3\t60\t*", "E\te1\ts1+\ts2+\t90\t100$\t0\t10\t8M2I2M1D", "E\t*\ts2-\ts3+\t0\t5\t0\t5\t*",
             "G\tg1\ts1-\ts3-\t30\t*", "F\ts1\tread1+\t0\t10\t0\t10\t*", "O\to1\ts1+ e1+ s2+", "U\tu1\ts3 o1 g1"],
    "gfa1": ["H\tVN:Z:1.0", "S\ta\tACGT", "S\tb\t*\tLN:i:9", "S\tc\tGGGCC", "L\ta\t+\tb\t-\t2M1D1M\tID:Z:l1",
             "L\tb\t+\tc\t+\t*", "C\tb\t+\ta\t-\t2\t3M\tID:Z:c1", "P\tp1\ta+,b-\t2M1D1M"],
}
_canaries = []        # (name, gfa, callable, first answer)


def _canary_queries(g, version):
    out = []
    for name, kind, fn in CAT.Q:
        if kind == "gfa":
            for seed in (1, 2, 3):
                out.append(("%s.%s#%d" % (version, name, seed), g, (lambda fn=fn, seed=seed: fn(g, purity.Env(g, seed)))))
    keys = ([("sid", "s1"), ("eid", "e1"), ("gid", "g1"), ("oid", "o1"), ("uid", "u1"), ("name", "s2"), ("slen", 50)]
            if version == "gfa2" else [("name", "a"), ("ID", "l1"), ("path_name", "p1"), ("from_segment", "a"), ("LN", 9)])
    for k, v in keys:
        out.append(("%s.select{%s}" % (version, k), g, (lambda k=k, v=v: g.select({k: v}))))
    for x in g.lines:
        out.append(("%s.str(%s)" % (version, x.record_type), g, (lambda x=x: str(x))))
    return out


def _ask(fn):
    try:
        return ("ok", purity.canon(fn()))
    except Exception as e:        # the answer is the class of the exception
        return ("raise", type(e).__name__)


def setup(ctx):
    hooks.RATE = 5
    ctx.notes["catalogue_size"] = len(CAT.Q)
    # canaries: fixed questions on two fixed graphs, asked before anything else; they are asked
    # again after every case -- a read-only call which leaves state behind anywhere in the
    # process (class attributes, module-level caches) changes a later answer
    with hooks.suspended():
        for version, doc in CANARY_DOCS.items():
            g = gfapy.Gfa(doc, version=version)
            for name, gg, fn in _canary_queries(g, version):
                _canaries.append((name, gg, fn, _ask(fn)))
    ctx.notes["canaries"] = len(_canaries)


def cases(rng, tier, shard, nshards):
    while True:
        version = rng.choice(["gfa1", "gfa2"])
        canonical = rng.random() < 0.6
        if version == "gfa1":
            d = G.gen_gfa1(rng, canonical=canonical, with_lengths=rng.random() < 0.5, nlinks=rng.randint(1, 8))
        elif rng.random() < 0.45:
            d = G.gen_gfa2_semantic(rng)
            canonical = True
        else:
            d = G.gen_gfa2(rng, canonical=canonical, gaps_in_sets=rng.random() < 0.3, gaps_in_paths=rng.random() < 0.2,
                           ngaps=rng.choice([0, 1, 2]), ncustom=rng.choice([0, 0, 1, 2, 2]))
        lines = d.lines()
        rng.shuffle(lines)
        yield {"version": version, "lines": lines, "vlevel": rng.choice([0, 1, 1, 2, 3]), "canonical": canonical,
               "seed": rng.getrandbits(32), "ncalls": rng.randint(10, 40)}


def finish(ctx):
    ctx.notes["catalogue"] = len(CAT.names())


def _tc(version):
    from ..spec import grammar as S

    def fn(text):
        # a key such as "L=<text>" keeps its prefix
        pre = ""
        if len(text) > 2 and text[1] == "=" and text[0] == text[2]:
            pre, text = text[:2], text[2:]
        try:
            return pre + repr(S.canon_doc([text], version, split_headers=False))
        except Exception:
            return pre + text
    return fn


def run(case, ctx):
    r = call(ctx, "Gfa(list)", gfapy.Gfa, case["lines"], vlevel=case["vlevel"], version=case["version"])
    if not r.ok:
        ctx.violation("valid-document-refused/%s" % r.cls(), str(r.exc)[:300], prop="C01")
        return
    g = r.value
    rng = random.Random(case["seed"])
    nontrivial = False
    trace = []
    for _ in range(case["ncalls"]):
        lines = g.lines
        if rng.random() < 0.25 or not lines:
            obj, qs, extra = g, [(n, k, f) for n, k, f in CAT.Q if k == "gfa"], ()
        else:
            x = rng.choice(lines)
            if rng.random() < 0.15:
                # alignment value of an edge / fragment
                a = None
                for fn in ("overlap", "alignment"):
                    try:
                        a = x.get(fn)
                    except Exception:
                        a = None
                    if a is not None and not isinstance(a, str):
                        break
                if a is None or isinstance(a, (str, gfapy.Placeholder)) and not hasattr(a, "complement"):
                    continue
                obj, qs, extra = a, [(n, k, f) for n, k, f in CAT.Q if k == "aln"], (x, a)
                if isinstance(a, gfapy.CIGAR) and any(op.code in "ID" for op in a):
                    nontrivial = True
            else:
                obj, qs, extra = x, CAT.queries_for(x.record_type), (x,)
                if case["vlevel"] == 0 or not case["canonical"]:
                    nontrivial = True
        if not qs:
            continue
        name, kind, fn = rng.choice(qs)
        bad, r1 = purity.guarded_query(ctx, g, "%s.%s" % (kind, name), fn, obj, rng.getrandbits(32), extra,
                                       textcanon=None if case["canonical"] else _tc(case["version"]))
        ctx.count("guarded_calls")
        ctx.add("queries_exercised", "%s.%s" % (kind, name))
        if r1.ok:
            ctx.add("queries_returned", "%s.%s" % (kind, name))
        trace.append("%s.%s" % (kind, name))
        for key, detail in bad:
            ctx.violation(key, "%s\n  call sequence: %s" % (detail, trace[-6:]))
        if bad:
            return
    # the canaries give the answers they gave before the first case
    with hooks.suspended():
        for name, gg, fn, first in _canaries:
            now = _ask(fn)
            ctx.count("canary_answers")
            if now != first:
                ctx.violation("later-answer-differs/" + name.split("#")[0],
                              "%s: before any case %r, now %r\n  calls of this case: %s" % (name, first, now, trace[-12:]))
                return
    if nontrivial:
        ctx.nontriv([case["lines"], case["vlevel"], case["seed"]])
    ctx.sample({"lines": case["lines"][:6], "vlevel": case["vlevel"], "calls": trace[:15]})
