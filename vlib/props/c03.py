"""C03 — the graph does not depend on the order of the lines."""
import itertools
import gfapy
from ..gen import docs as G
from ..spec import grammar as S
from ..spec import edges as E
from ..mon import obs as O
from ..mon import hooks
from ..mon.client import call

ID = "C03"
NMAX_ALL = {"quick": 5, "thorough": 7}


def setup(ctx):
    hooks.RATE = 7


def small_doc(rng, version, nlines):
    """a VALID document with about nlines lines, rich in references."""
    for _ in range(30):
        if version == "gfa1":
            d = G.gen_gfa1(rng, nseg=rng.randint(1, 3), nlinks=rng.randint(1, 3), nconts=rng.choice([0, 1]),
                           npaths=rng.choice([0, 1, 1]), header=rng.random() < 0.3, comments=False,
                           tags=rng.random() < 0.3, allow_parallel=rng.random() < 0.3)
        else:
            d = G.gen_gfa2(rng, nseg=rng.randint(1, 3), nedges=rng.randint(0, 3), ngaps=rng.choice([0, 1]),
                           nfrags=rng.choice([0, 0, 1]), nog=rng.choice([0, 1, 2]), nug=rng.choice([0, 1]),
                           ncustom=rng.choice([0, 0, 1]), header=rng.random() < 0.3, comments=False,
                           tags=rng.random() < 0.3, gaps_in_sets=rng.random() < 0.3,
                           gaps_in_paths=rng.random() < 0.3)
        lines = d.lines()
        if 3 <= len(lines) <= nlines:
            return lines
    return lines[:nlines]


def multiline_doc(rng):
    """a GFA2 document with one set defined on several U lines (gfapy: the items of the lines are
    put together, the tags of all lines belong to the group) and possibly a path defined on two O
    lines (whose relative order is part of the document and is kept in every order tried).  The
    tags of the group lines have distinct names and every datatype."""
    from ..gen import values as V
    n = rng.randint(2, 4)
    segs = ["s%d" % i for i in range(n)]
    lines = ["S\t%s\t10\t*" % x for x in segs]
    edges = []
    for i in range(n - 1):
        edges.append("e%d" % i)
        lines.append("E\te%d\t%s+\t%s+\t5\t10$\t0\t5\t*" % (i, segs[i], segs[i + 1]))
    gaps = []
    if n >= 2 and rng.random() < 0.5:
        gaps.append("g1")
        lines.append("G\tg1\t%s+\t%s-\t10\t*" % (segs[0], segs[-1]))
    pool = segs + edges + gaps
    k = rng.randint(2, 3)
    used = set()
    ulines = []
    for i in range(k):
        items = rng.sample(pool, rng.randint(1, min(3, len(pool))))
        tags = V.random_tags(rng, n=rng.choice([0, 1, 1, 2]), canonical=True, used=used)
        used |= set(t[0] for t in tags)
        ulines.append("\t".join(["U", "u1", " ".join(items)] + ["%s:%s:%s" % t for t in tags]))
    olines = []
    if rng.random() < 0.4 and n >= 3:
        t1 = V.random_tags(rng, n=rng.choice([0, 1]), canonical=True, used=used)
        used |= set(t[0] for t in t1)
        t2 = V.random_tags(rng, n=rng.choice([0, 1]), canonical=True, used=used)
        olines = ["\t".join(["O", "o1", "%s+ %s+" % (segs[0], segs[1])] + ["%s:%s:%s" % t for t in t1]),
                  "\t".join(["O", "o1", "%s+" % segs[2]] + ["%s:%s:%s" % t for t in t2])]
    return lines, ulines, olines


def cases(rng, tier, shard, nshards):
    nmax = NMAX_ALL[tier]
    while True:
        version = rng.choice(["gfa1", "gfa2"])
        if rng.random() < 0.08:
            # paths which state different overlaps for a step over a link whose overlap is not
            # specified (each path arriving before the link makes a placeholder link of its own)
            from . import c04 as C4
            from ..spec import document as D
            for _ in range(30):
                lines = C4.path_link_overlap_doc(rng)
                if D.recognise_doc(lines, "gfa1")[0] == S.VALID:
                    break
            else:
                continue
            ctx_note = "path-link-overlaps"
            yield {"version": "gfa1", "lines": lines, "mode": "random", "n": 40 if tier == "quick" else 200,
                   "seed": rng.getrandbits(32), "explicit": rng.random() < 0.3, "stratum": ctx_note}
            continue
        if rng.random() < 0.2:
            lines, ulines, olines = multiline_doc(rng)
            yield {"k": "multiline", "version": "gfa2", "lines": lines, "ulines": ulines, "olines": olines,
                   "seed": rng.getrandbits(32), "n": 12 if tier == "quick" else 40}
            continue
        if rng.random() < 0.7:
            twin = rng.random() < 0.25
            lines = small_doc(rng, version, nmax - 1 if twin else nmax)
            if twin:
                # two records written identically are two records (only records without identifier
                # can be: C without ID, F, and E/G/O/U with '*'; identical L lines are UNSPECIFIED)
                cand = [l for l in lines if _twinnable(l, version)]
                if cand:
                    lines = lines + [rng.choice(cand)]
            yield {"version": version, "lines": lines, "mode": "all", "explicit": rng.random() < 0.3,
                   "vlevel": rng.choice([None, None, 0, 0, 2, 3]), "build": rng.choice(["ctor", "ctor", "incremental"])}
        else:
            lines = small_doc(rng, version, 9) if rng.random() < 0.5 else G.gen_doc(rng, version=version).lines()[:14]
            yield {"version": version, "lines": lines, "mode": "random", "n": 40 if tier == "quick" else 200,
                   "seed": rng.getrandbits(32), "explicit": rng.random() < 0.3,
                   "vlevel": rng.choice([None, None, 0, 0, 2, 3]), "build": rng.choice(["ctor", "ctor", "incremental"])}


def _twinnable(l, version):
    f = l.split("\t")
    if version == "gfa1":
        return f[0] == "C" and not any(t.startswith("ID:") for t in f[7:])
    return f[0] == "F" or (f[0] in ("E", "G", "O", "U") and f[1] == "*")


def perms(case):
    n = len(case["lines"])
    if case["mode"] == "all":
        return itertools.permutations(range(n))
    import random
    r = random.Random(case["seed"])
    out = []
    for _ in range(case["n"]):
        p = list(range(n))
        r.shuffle(p)
        out.append(tuple(p))
    return out


def model_neighbourhoods(lines, version):
    recs = [S.parse_line(l, version) for l in lines]
    nb = E.neighbourhoods(recs, version)
    out = {}
    for seg, colls in nb.items():
        out[seg] = {c: sorted(S.canon_doc([recs[i].text()], version, split_headers=False)[0].__repr__()
                              for i in v) for c, v in colls.items()}
    return out


def gfapy_neighbourhoods(g, version):
    out = {}
    for s in g.segments:
        d = {}
        for c in E.COLLS:
            d[c] = sorted(S.canon_doc([O.safe_str(x)], version, split_headers=False)[0].__repr__()
                          for x in getattr(s, c))
        out[s.name] = d
    return out


def _group_view(text):
    """(record type, name, items, tags as a sorted tuple) of a written group line."""
    r = S.parse_line(text, "gfa2")
    items = r.pos[1].split(" ")
    return (r.rt, r.pos[0], tuple(sorted(items)) if r.rt == "U" else tuple(items), tuple(sorted(r.tags)))


def run_multiline(case, ctx):
    import random
    rng = random.Random(case["seed"])
    base, ulines, olines = case["lines"], case["ulines"], case["olines"]
    want = {}
    uitems, utags = [], []
    for l in ulines:
        v = _group_view(l)
        uitems += list(v[2])
        utags += list(v[3])
    want["u1"] = ("U", "u1", tuple(sorted(uitems)), tuple(sorted(utags)))
    if olines:
        oi, ot = [], []
        for l in olines:
            v = _group_view(l)
            oi += list(v[2])
            ot += list(v[3])
        want["o1"] = ("O", "o1", tuple(oi), tuple(sorted(ot)))
    others = sorted(base)
    ctx.count("multiline_group_documents")
    for _ in range(case["n"]):
        movable = base + ulines + ([olines[0]] if olines else [])
        rng.shuffle(movable)
        if olines:
            # the second O line anywhere after the first
            i = movable.index(olines[0])
            movable.insert(rng.randint(i + 1, len(movable)), olines[1])
        order = movable
        r = call(ctx, "Gfa(list)", gfapy.Gfa, order)
        ctx.count("permutations")
        ctx.count("multiline_group_orders")
        if not r.ok:
            ctx.violation("order-raises/%s/multi-line-group" % r.cls(),
                          "order %r raised %s: %s" % (order, r.cls(), str(r.exc)[:300]))
            return
        g = r.value
        written = O.safe_str(g).split("\n")
        got = {}
        rest = []
        for w in written:
            if w[:1] in ("U", "O"):
                v = _group_view(w)
                if v[1] in got:
                    ctx.violation("order-dependent/%s/written-twice/multi-line-group" % v[0],
                                  "order %r: group %s written on several lines: %r" % (order, v[1], written))
                    return
                got[v[1]] = v
            else:
                rest.append(w)
        if sorted(rest) != others:
            ctx.violation("order-dependent/other-records/multi-line-group",
                          "order %r: records other than the groups are written as %r" % (order, sorted(rest)))
            return
        # back-references: every line listed by a group refers back to the line of the Gfa which
        # carries the group (not to a line which has been replaced), and to no other
        for l in g.lines:
            if l.record_type not in ("S", "E", "G"):
                continue
            for coll, rt in (("sets", "U"), ("paths", "O")):
                try:
                    refs = list(getattr(l, coll))
                except Exception:
                    continue
                ctx.count("multiline_backreferences_checked")
                names = set()
                for ref in refs:
                    names.add(ref.name)
                    if g.line(ref.name) is not ref:
                        ctx.violation("order-dependent/%s/stale-backreference/multi-line-group" % rt,
                                      "order %r: %s.%s holds a line which is not the %s of the Gfa: %r"
                                      % (order, l.name, coll, ref.name, O.safe_str(ref)))
                        return
                wantn = set(nm for nm, v in want.items() if v[0] == rt and
                            any(it.rstrip("+-") == l.name if rt == "O" else it == l.name for it in v[2]))
                if rt == "U" and names != wantn:
                    ctx.violation("order-dependent/U/backreferences/multi-line-group",
                                  "order %r: %s.sets = %r, the lines define %r" % (order, l.name, sorted(names), sorted(wantn)))
                    return
        for n in want:
            if got.get(n) != want[n]:
                a, b = want[n], got.get(n)
                what = "missing" if b is None else ("items" if a[2] != b[2] else "tags")
                ctx.violation("order-dependent/%s/%s/multi-line-group" % (a[0], what),
                              "order %r: group %s is %r, the lines define %r" % (order, n, b, a))
                return
    ctx.nontriv([base, ulines, olines])
    ctx.sample({"version": "gfa2", "lines": base + ulines + olines, "orders_executed": case["n"]})


def run(case, ctx):
    if case.get("k") == "multiline":
        return run_multiline(case, ctx)
    lines, version = case["lines"], case["version"]
    kw = {"version": version} if case["explicit"] else {}
    if case.get("vlevel") is not None:
        kw["vlevel"] = case["vlevel"]
        ctx.count("documents_at_level_%d" % case["vlevel"])
    ref = None
    ref_perm = None
    nperm = 0
    referencing = any(l.split("\t")[0] in ("L", "C", "P", "E", "G", "F", "O", "U") for l in lines)
    want_nb = model_neighbourhoods(lines, version)
    defined = set()
    for l in lines:
        r = S.parse_line(l, version)
        from ..spec import textmodel as T
        r.version = version
        n = T.ident(r)
        if n is not None:
            defined.add(n)
    if len(set(lines)) < len(lines):
        ctx.count("documents_with_twin_records")
    if case.get("stratum"):
        ctx.count("documents_" + case["stratum"])
    seen_orders = set()
    for p in perms(case):
        order = [lines[i] for i in p]
        if tuple(order) in seen_orders:
            continue            # the same text (twins exchanged)
        seen_orders.add(tuple(order))
        if case.get("build") == "incremental":
            # the lines arrive one at a time; the queue of version-ambiguous lines is released by the
            # line which decides the version (every document with a segment has one)
            def build():
                g_ = gfapy.Gfa(**kw)
                for l_ in order:
                    g_.add_line(l_)
                if not any(l_.split("\t")[0] == "S" for l_ in order):
                    g_.process_line_queue()
                return g_
            r = call(ctx, "Gfa(); add_line ...", build)
            ctx.count("incremental_builds")
        else:
            r = call(ctx, "Gfa(list)", gfapy.Gfa, order, **kw)
        nperm += 1
        ctx.count("permutations")
        if not r.ok:
            ctx.violation("order-raises/%s/%s" % (r.cls(), _shape(order, version)),
                          "order %r of a valid document raised %s: %s" % (order, r.cls(), str(r.exc)[:300]))
            return
        g = r.value
        o = O.obs(g)
        ctx.add("states", hash(repr(o)) & 0xffffffff)
        if ref is None:
            ref, ref_perm = o, order
            # model expectation, once per document (the rest must equal this order)
            got_nb = gfapy_neighbourhoods(g, version)
            if got_nb != want_nb:
                d = O.diff_obs(want_nb, got_nb)
                ctx.violation("neighbourhood-differs-from-model/" + _what(d), "document %r: %s" % (order, d[:3]),
                              prop="C11")
            if g.version != version:
                ctx.violation("wrong-version/%s" % g.version, repr(order), prop="C13")
        elif o != ref:
            d = O.diff_obs(ref, o)
            ctx.violation("order-dependent/%s/%s" % (_what(d), _shape(order, version)),
                          "orders %r and %r build different graphs:\n  %s" % (ref_perm, order, "\n  ".join(d[:4])))
            return
        for l in g.lines:
            if l.virtual:
                try:
                    n = l.name
                except Exception:
                    n = None
                if n in defined or l.record_type == "L":
                    ctx.violation("placeholder-remains/%s" % l.record_type,
                                  "order %r: placeholder left for %r" % (order, O.safe_str(l)))
                    return
    if referencing and nperm > 1:
        ctx.nontriv([lines, case["mode"]])
    if case["mode"] == "all":
        ctx.count("documents_all_orders")
    ctx.sample({"version": version, "lines": lines, "orders_executed": nperm})


def _what(d):
    if not d:
        return "?"
    p = d[0].split(":")[0].strip("/").split("/")
    if p[0] == "lines" and len(p) >= 3:
        rt = p[1].split(":")[0].split("=")[0]
        return "%s/%s" % (rt, "/".join(p[2:4]))
    return p[0]


def _shape(order, version):
    """which record type arrives before a record it names (coarse, for the mechanism key)."""
    rts = [l.split("\t")[0] for l in order]
    first_s = rts.index("S") if "S" in rts else len(rts)
    early = sorted(set(rt for rt in rts[:first_s] if rt in "LCPEGFOU"))
    return "before-S:" + "".join(early) if early else "S-first"
