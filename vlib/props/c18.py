"""C18 — validation levels only change when errors surface, never the result."""
import gfapy
from ..gen import docs as G
from ..gen import hostile as HG
from ..gen import values as V
from ..spec import grammar as S
from ..mon import obs as O
from ..mon import hooks
from ..mon import purity
from ..mon.client import call

ID = "C18"

# (line, version, field, kind or tag datatype)
FIELDS = [
    ("S\tA\t*", None, "name", "name1"), ("S\tA\t*", None, "sequence", "seq1"), ("S\tA\t*\tLN:i:3", None, "LN", "i"),
    ("S\tA\t10\t*", None, "sid", "id2"), ("S\tA\t10\t*", None, "sequence", "seq2"),
    ("L\tA\t+\tB\t-\t*", None, "overlap", "cigar1"), ("L\tA\t+\tB\t-\t*", None, "from_orient", "orient"),
    ("L\tA\t+\tB\t-\t*", None, "to_segment", "name1"), ("C\tA\t+\tB\t-\t1\t*", None, "pos", "pos1"),
    ("E\t*\tA+\tB-\t0\t1\t0\t1\t*", None, "alignment", "aln2"), ("E\t*\tA+\tB-\t0\t1\t0\t1\t*", None, "eid", "optid2"),
    ("E\t*\tA+\tB-\t0\t5\t0\t1\t*", None, "end1", "pos2"), ("G\t*\tA+\tB-\t5\t*", None, "var", "optint"),
    ("P\tp\tA+,B-\t*", None, "overlaps", "cigar1_list"), ("O\to\tA+ B-", None, "pid", "optid2"),
    ("S\tA\t*\txa:A:x", None, "xa", "A"), ("S\tA\t*\txi:i:1", None, "xi", "i"), ("S\tA\t*\txf:f:1.5", None, "xf", "f"),
    ("S\tA\t*\txz:Z:x", None, "xz", "Z"), ("S\tA\t*\txj:J:[1]", None, "xj", "J"), ("S\tA\t*\txh:H:1A", None, "xh", "H"),
    ("S\tA\t*\txb:B:c,1", None, "xb", "B"), ("H\tVN:Z:1.0", None, "VN", "Z"), ("S\tA\t10\t*\tKC:i:5", None, "KC", "i"),
    # less travelled record types and fields
    ("X\tabc\tdef", "gfa2", "record_type", "crt"), ("X\tabc\tdef", "gfa2", "field1", "generic"),
    ("X\tabc\tdef\txi:i:1", "gfa2", "xi", "i"), ("# a comment", None, "content", "comment"),
    ("F\tA\tr+\t0\t1\t0\t1\t*", None, "external", "oref2"), ("F\tA\tr+\t0\t5\t0\t1\t*", None, "s_end", "pos2"),
    ("G\tg\tA+\tB-\t5\t*", None, "disp", "int"), ("G\tg\tA+\tB-\t5\t*", None, "sid1", "oref2"),
    ("G\tg\tA+\tB-\t5\t*", None, "gid", "optid2"), ("P\tp\tA+,B-\t*", None, "segment_names", "oref1_list"),
    ("P\tp\tA+,B-\t*", None, "path_name", "pname1"), ("O\to\tA+ B-", None, "items", "oref2_list"),
    ("U\tu\tA B", None, "items", "id2_list"), ("U\tu\tA B", None, "pid", "optid2"),
    ("C\tA\t+\tB\t-\t1\t*", None, "overlap", "cigar1"), ("C\tA\t+\tB\t-\t1\t*", None, "to_orient", "orient"),
    ("E\t*\tA+\tB-\t0\t1\t0\t1\t*", None, "sid2", "oref2"), ("S\tA\t10\t*", None, "slen", "uint"),
    ("H\tVN:Z:1.0\txz:Z:a", None, "xz", "Z"), ("L\tA\t+\tB\t-\t*\tMQ:i:3", None, "MQ", "i"),
    ("E\t*\tA+\tB-\t0\t1\t0\t1\t*\txi:i:1", None, "xi", "i"), ("G\tg\tA+\tB-\t5\t*\txz:Z:a", None, "xz", "Z"),
    ("O\to\tA+ B-\txf:f:1.5", None, "xf", "f"), ("U\tu\tA B\txj:J:[1]", None, "xj", "J"),
    ("F\tA\tr+\t0\t1\t0\t1\t*\txa:A:x", None, "xa", "A"), ("L\tA\t+\tB\t-\t*\txb:B:c,1", None, "xb", "B"),
    ("P\tp\tA+,B-\t*\txh:H:1A", None, "xh", "H"),
    # a custom record in which a would-be tag is a positional field (its value does not fit the datatype it
    # names): the name is free for a new tag
    ("X\tabc\txi:i:bad\tyy:i:1", "gfa2", "xi", "Z"),
]
VALID_VALUES = {
    "name1": ["B", "x1", "a:b"], "seq1": ["ACGT", "*", "acgtn"], "i": ["5", "-3", "+7"], "id2": ["B", "*a", "x,y"],
    "seq2": ["ACGT", "*", "!x"], "cigar1": ["3M", "*", "2M1I4D", "1=2X", "@cigar1:1=2X", "@cigar1:5M"], "orient": ["+", "-"], "pos1": ["0", "17"],
    "aln2": ["*", "3M1D", "1,2,3", "7", "@cigar2:3M1D2I", "@cigar1:4M", "@trace:1,2"], "optid2": ["e1", "*", "9"], "pos2": ["3", "5$", "1"], "optint": ["*", "0", "44", "-2"],
    "cigar1_list": ["*", "2M", "1M,*"], "A": ["y", "!"], "f": ["2.5", "1e-3", "-.5"], "Z": ["a b", "~"], "J": ["[2]", "{\"a\": [1]}"],
    "H": ["00", "ABCDEF"], "B": ["c,1,-2", "f,1.5", "I,4000000000"],
    "crt": ["Y", "Xy", "x1", "@"], "generic": ["abc", "a b", "*", "x:i:y z"], "comment": ["another", " x y", ""],
    "oref2": ["x-", "r2+", "a,b+"], "int": ["0", "-7", "44"], "oref1_list": ["A+", "A+,B-,C+"],
    "pname1": ["p1", "a+,b", "x:y"],
    "oref2_list": ["A+", "A+ B- e1+"], "id2_list": ["A", "A B c1"], "uint": ["0", "12"],
}
INVALID_VALUES = {
    "name1": ["*a", "a b", "a+,b", ""], "seq1": ["AC GT", "12", ""], "i": ["1.5", "x", "", "1_0"], "id2": ["a b", ""],
    "seq2": ["a b", ""], "cigar1": ["3", "M3", "3M,2M", ""], "orient": ["*", "++", ""], "pos1": ["-1", "1$", "x"],
    "aln2": ["3X", "1,,2", "M", "", "@cigar1:3=", "@cigar1:2X1M", "@cigar1:1M2S"], "optid2": ["a b", ""], "pos2": ["$", "-1", "1$$", "a"], "optint": ["x", "1.5", ""],
    "cigar1_list": ["3", "2M,,1M", ""], "A": ["ab", "", " "], "f": ["inf", "x", "1e", ""], "Z": ["a\tb", "a\nb", ""],
    "J": ["{", "[1", "a\tb", ""], "H": ["1", "1a", "GG", ""], "B": ["c,128", "C,-1", "x,1", "c", "f,x", ""],
    "crt": ["a b", "S", "E", "", "a\tb"], "generic": ["a\tb", "a\nb"], "comment": ["a\nb"],
    "oref2": ["x", "a b+", "", "+"], "int": ["x", "1.5", ""], "oref1_list": ["A", "A+,B", "", "A+ B-"],
    "oref2_list": ["A", "", "A+\tB-"], "id2_list": ["", "a\tb"], "uint": ["x", "1.5", ""],
    "pname1": ["*a", "=x", "a b", ""],
}


# Python values for a tag which does not exist yet: unrepresentable in their own default datatype ...
BAD_PY = {"nan": float("nan"), "inf": float("inf"), "tab-string": "a\tb", "newline-string": "a\nb",
          "int-array-out-of-range": [2 ** 40, 1], "non-finite-array": [1.5, float("inf")]}
# ... and representable ones, with the documented default datatype
GOOD_PY = {"int": (12, "i"), "str": ("hello", "Z"), "float": (2.5, "f"), "int-array": ([1, 2, 300], "B"),
           "dict": ({"a": [1]}, "J"), "float-array": ([1.5, 2.0], "B"), "char": ("x", "Z")}


def setup(ctx):
    hooks.RATE = 25


def cases(rng, tier, shard, nshards):
    while True:
        r = rng.random()
        if r < 0.35:
            canonical = rng.random() < 0.6
            d = G.gen_doc(rng, canonical=canonical)
            lines = d.lines()
            rng.shuffle(lines)
            yield {"k": "levels", "version": d.version, "lines": lines, "canonical": canonical}
        elif r < 0.50:
            lines = HG.hostile_doc(rng)
            yield {"k": "mono", "lines": lines, "version": rng.choice([None, "gfa1", "gfa2"])}
        elif r < 0.58:
            # values added to a header tag through Header.add (one value, or several already)
            dt, goods, bads = rng.choice([("i", [5, -3], ["a", 1.5, [1]]), ("f", [2.5], ["x", [1]]), ("Z", ["abc"], ["a\tb", 5]),
                                          ("J", [[1], {"a": 2}], ["x\ty"]), ("A", ["q"], ["ab", 7])])
            valid = rng.random() < 0.5
            yield {"k": "header-add", "dt": dt, "start": rng.choice([0, 1, 2]), "value": rng.choice(goods if valid else bads),
                   "seed_values": goods, "valid": valid, "explicit": rng.random() < 0.6, "vlevel": rng.randrange(4),
                   "connected": rng.random() < 0.5, "validated_before": rng.random() < 0.5,
                   "inplace": rng.choice([None, None, "insert-first", "insert-last"])}
        elif r < 0.62:
            # a new tag: assignments which are refused, then a valid value of another class
            yield {"k": "assign-seq", "line": rng.choice([f[0] for f in FIELDS if not f[0].startswith("#")]), "tag": V.tagname(rng),
                   "refused": [rng.choice(sorted(BAD_PY)) for _ in range(rng.randint(0, 2))],
                   "then": rng.choice(sorted(GOOD_PY)), "vlevel": rng.randrange(4), "how": rng.choice(["set", "attr"]),
                   "sibling": rng.choice(sorted(GOOD_PY)) if rng.random() < 0.4 else None}
            if rng.random() < 0.3:
                # (no refused assignment first: only the clone's tag comes before the valid one)
                pass
        else:
            i = rng.randrange(len(FIELDS))
            kind = FIELDS[i][3]
            valid = rng.random() < 0.5
            pool = VALID_VALUES[kind] if valid else INVALID_VALUES[kind]
            yield {"k": "assign", "field": i, "value": rng.choice(pool), "valid": valid, "vlevel": rng.randrange(4),
                   "how": rng.choice(["set", "attr"]), "via_gfa": rng.random() < 0.4, "known_version": rng.random() < 0.5}


def run_assign_seq(case, ctx):
    lvl, tag = case["vlevel"], case["tag"]
    ver = {f[0]: f[1] for f in FIELDS}.get(case["line"])
    line = gfapy.Line(case["line"], vlevel=lvl, **({"version": ver} if ver else {}))

    def assign(v):
        if case["how"] == "attr":
            setattr(line, tag, v)
        else:
            line.set(tag, v)
    if case.get("sibling"):
        # a clone of the line got a value of another class under the same tag name before
        sc = call(ctx, "clone", line.clone)
        if sc.ok:
            call(ctx, "set(tag) on a clone", sc.value.set, tag, GOOD_PY[case["sibling"]][0])
            ctx.count("sibling_assignments")
    for name in case["refused"]:
        r = call(ctx, "assign (unrepresentable)", assign, BAD_PY[name])
        ctx.count("assignments")
        if r.ok:
            # accepted below level 3 (the tag exists now, with that datatype): nothing to judge
            if lvl >= 3:
                ctx.violation("invalid-assignment-not-reported-at-level-3/new-tag/%s" % name,
                              "%r.%s = %r at level 3" % (case["line"], tag, BAD_PY[name]))
            ctx.count("seq_unrepresentable_accepted")
            return
    # every assignment so far was refused: the tag must still be undefined ...
    g0 = call(ctx, "get", line.get, tag)
    if not g0.ok or g0.value is not None or tag in line.tagnames:
        ctx.violation("refused-assignment-leaves-tag/level%d" % lvl, "%r: after refused %r the tag %s reads %r"
                      % (case["line"], case["refused"], tag, g0.value if g0.ok else g0.cls()))
        return
    # ... and a representable value of another class is accepted with its own default datatype
    v, dt = GOOD_PY[case["then"]]
    r = call(ctx, "assign (valid)", assign, v)
    ctx.count("assignments")
    ctx.count("seq_valid_after_refused")
    cell = "%r: %s after refused %r (level %d, %s)" % (case["line"], case["then"], case["refused"], lvl, case["how"])
    ctx.add("assign_cells", "seq/%s/%s/%d" % ("+".join(case["refused"]), case["then"], lvl))
    ctx.nontriv(["seq", case["line"], case["refused"], case["then"], lvl, case["how"]])
    if not r.ok:
        ctx.violation("valid-assignment-refused/after-refused-%s/level%d/%s" % (case["then"], lvl, r.cls()),
                      "%s: %s" % (cell, str(r.exc)[:200]))
        return
    d = call(ctx, "get_datatype", line.get_datatype, tag)
    if not d.ok or d.value != dt:
        ctx.violation("stale-datatype/%s-as-%s/level%d" % (case["then"], d.value if d.ok else d.cls(), lvl),
                      "%s: datatype %r, documented default %r" % (cell, d.value if d.ok else None, dt))
        return
    for what, fn in (("validate_field", lambda: line.validate_field(tag)), ("validate", line.validate),
                     ("str", lambda: str(line))):
        rr = call(ctx, what, fn)
        if not rr.ok or (what == "str" and "# INVALID" in rr.value):
            ctx.violation("valid-assignment-rejected-later/after-refused/%s/level%d" % (what, lvl), "%s: %s -> %s"
                          % (cell, what, rr.cls() if not rr.ok else rr.value))
            return


def run_header_add(case, ctx):
    lvl, dt = case["vlevel"], case["dt"]
    if case["connected"]:
        h = gfapy.Gfa(vlevel=lvl).header
    else:
        h = gfapy.Line("H", vlevel=lvl)
    for i in range(case["start"]):
        r0 = call(ctx, "header.add (first values)", h.add, "xx", case["seed_values"][i % len(case["seed_values"])], dt)
        if not r0.ok:
            return
    value = case["value"]
    if case["start"] == 0:
        case = dict(case, explicit=True)        # (a new tag: the datatype is the one given)
    if case.get("validated_before") and case["start"] > 0:
        # the header has been validated and written before (what these calls remember must not
        # hide a later invalid value)
        call(ctx, "validate (before)", h.validate)
        call(ctx, "str (before)", str, h)
        call(ctx, "validate_field (before)", h.validate_field, "xx")
    if case.get("inplace") and case["start"] >= 2 and not case["valid"]:
        # the value is put into the array of values in place (a list method of the FieldArray)
        fa = h.get("xx")
        pos = 0 if case["inplace"] == "insert-first" else len(list(fa))
        ri = call(ctx, "FieldArray.insert", fa.insert, pos, value)
        ctx.count("header_inplace_edits")
        if not ri.ok:
            return
        cell_i = "header tag xx of datatype %s with %d values (level %d): %r inserted in place at %d" % (dt, case["start"], lvl, value, pos)
        vl = call(ctx, "validate", h.validate)
        vf = call(ctx, "validate_field", h.validate_field, "xx")
        if vl.ok or vf.ok:
            ctx.violation("invalid-value-passes-validation/header-inplace/%s/%s" % (dt, "validate" if vl.ok else "validate_field"), cell_i)
        return
    cell = "header.add('xx', %r%s) after %d value(s) of datatype %s (level %d, %s)" % (
        value, ", %r" % dt if case["explicit"] else "", case["start"], dt, lvl, "Gfa header" if case["connected"] else "stand-alone H line")
    r = call(ctx, "header.add", (lambda: h.add("xx", value, dt)) if case["explicit"] else (lambda: h.add("xx", value)))
    ctx.count("assignments")
    ctx.count("header_add_assignments")
    ctx.add("assign_cells", "header-add/%s/%s/%d/%s" % (dt, "valid" if case["valid"] else "invalid", lvl, "dt" if case["explicit"] else "nodt"))
    ctx.nontriv(["header-add", dt, repr(value), case["start"], case["explicit"], lvl, case["connected"]])
    if case["valid"]:
        if not r.ok:
            ctx.violation("valid-assignment-refused/header-add/%s/level%d/%s" % (dt, lvl, r.cls()), "%s: %s" % (cell, str(r.exc)[:200]))
            return
        for what, fn in (("validate", h.validate), ("str", lambda: str(h)), ("field_to_s", lambda: h.field_to_s("xx", True))):
            rr = call(ctx, what, fn)
            if not rr.ok or (what == "str" and "# INVALID" in rr.value):
                ctx.violation("valid-assignment-rejected-later/header-add/%s/%s/level%d" % (dt, what, lvl), "%s: %s" % (cell, rr.cls() if not rr.ok else rr.value))
                return
        return
    if r.ok and lvl >= 3:
        ctx.violation("invalid-assignment-not-reported-at-level-3/header-add/%s" % dt, cell)
        return
    if not r.ok:
        ctx.count("invalid_refused_at_assignment")
        if case["start"] == 0:
            # the tag does not exist: a valid value of another class is then accepted with its own
            # default datatype, as if the refused call had not been made
            v2, dt2 = ("hello", "Z") if dt != "Z" else (12, "i")
            r2 = call(ctx, "header.add (valid, after a refused one)", h.add, "xx", v2)
            ctx.count("header_add_valid_after_refused")
            if not r2.ok:
                ctx.violation("valid-assignment-refused/header-add-after-refused/level%d/%s" % (lvl, r2.cls()),
                              "%s was refused; then header.add('xx', %r) is refused too: %s" % (cell, v2, str(r2.exc)[:200]))
                return
            d2 = call(ctx, "get_datatype", h.get_datatype, "xx")
            if not d2.ok or d2.value != dt2:
                ctx.violation("stale-datatype/header-add/%s-as-%s" % (dt2, d2.value if d2.ok else d2.cls()),
                              "%s was refused; then header.add('xx', %r) got datatype %r" % (cell, v2, d2.value if d2.ok else None))
        return
    vl = call(ctx, "validate", h.validate)
    ctx.count("invalid_validated")
    if vl.ok:
        ctx.violation("invalid-value-passes-validation/header-add/%s" % dt, cell)
        return
    if lvl >= 2:
        w = call(ctx, "str", str, h)
        if w.ok and "# INVALID" not in w.value:
            ctx.violation("invalid-value-written-at-level-2/header-add/%s" % dt, "%s: %r" % (cell, w.value))


def run(case, ctx):
    k = case["k"]
    if k == "header-add":
        return run_header_add(case, ctx)
    if k == "assign-seq":
        return run_assign_seq(case, ctx)
    if k == "levels":
        return run_levels(case, ctx)
    if k == "mono":
        return run_mono(case, ctx)
    return run_assign(case, ctx)


def run_levels(case, ctx):
    lines, version = case["lines"], case["version"]
    res = {}
    for lvl in (0, 1, 2, 3):
        r = call(ctx, "Gfa(list)", gfapy.Gfa, lines, vlevel=lvl)
        ctx.count("level_builds")
        if not r.ok:
            ctx.violation("valid-document-refused-at-level/%d/%s" % (lvl, r.cls()), "%r: %s" % (lines, str(r.exc)[:200]))
            return
        w = call(ctx, "str(Gfa)", str, r.value)
        if not w.ok or "# INVALID" in w.value:
            ctx.violation("valid-document-not-writable-at-level/%d" % lvl, repr(w.value if w.ok else w.cls()))
            return
        o = O.obs(r.value)
        if case["canonical"]:
            res[lvl] = (w.value.split("\n"), o)
        else:
            tc = lambda t: repr(S.canon_doc([t], version, split_headers=False))
            res[lvl] = (sorted(tc(x) for x in w.value.split("\n")), purity.canon_strings(o, _tc(version)))
    for lvl in (1, 2, 3):
        if res[lvl][0] != res[0][0]:
            a, b = res[0][0], res[lvl][0]
            d = [(x, y) for x, y in zip(a, b) if x != y][:2] or [(len(a), len(b))]
            ctx.violation("text-differs-between-levels/0-vs-%d/%s" % (lvl, "canonical" if case["canonical"] else "free"),
                          "%r" % d)
            return
        if res[lvl][1] != res[0][1]:
            d = O.diff_obs(res[0][1], res[lvl][1])
            ctx.violation("graph-differs-between-levels/0-vs-%d" % lvl, "\n  ".join(d[:3]))
            return
    delayed = any(t in l for l in lines for t in (":J:", ":B:", ":H:")) or any(l[0] in "LCPEF" for l in lines)
    if delayed:
        ctx.nontriv([lines, "levels"])
    ctx.sample({"k": "levels", "lines": lines[:6]})


def _tc(version):
    def fn(text):
        pre = ""
        if len(text) > 2 and text[1] == "=" and text[0] == text[2]:
            pre, text = text[:2], text[2:]
        try:
            return pre + repr(S.canon_doc([text], version, split_headers=False))
        except Exception:
            return pre + text
    return fn


def run_mono(case, ctx):
    lines = case["lines"]
    kw = {"version": case["version"]} if case["version"] else {}
    acc = {}
    for lvl in (0, 1, 2, 3):
        r = call(ctx, "Gfa(list)", gfapy.Gfa, lines, vlevel=lvl, **kw)
        acc[lvl] = (r.ok, r.cls())
        ctx.count("monotonicity_builds")
    for hi in (1, 2, 3):
        for lo in range(hi):
            if acc[hi][0] and not acc[lo][0]:
                ctx.violation("accepted-at-%d-refused-at-%d/%s" % (hi, lo, acc[lo][1]), repr(lines))
                return
    if len(set(a for a, _ in acc.values())) > 1:
        ctx.nontriv([lines, "mono"])


def run_assign(case, ctx):
    text, version, field, kind = FIELDS[case["field"]]
    lvl, value, valid = case["vlevel"], case["value"], case["valid"]
    connected = False
    if kind in ("A", "i", "f", "Z", "J", "H", "B", "comment", "generic") and field != "VN" and \
            case.get("via_gfa"):
        # the line is a line of a Gfa built at that level (version known or not yet known): it is
        # created by the Gfa from the text and must have the Gfa's validation level
        ver = version or ("gfa2" if text.split("\t")[0] in "EFGOU" and len(text.split("\t")[0]) == 1 else None)
        g = gfapy.Gfa(vlevel=lvl, **({"version": ver} if (ver and case.get("known_version")) else {}))
        ra = call(ctx, "add_line(str)", g.add_line, text)
        cand = [l for l in g.lines if not l.virtual and l.record_type == text.split("\t")[0][:1].replace("#", "#")] if ra.ok else []
        if text.startswith("H"):
            cand = [g.header] if ra.ok else []
        if len(cand) == 1:
            line = cand[0]
            connected = True
            ctx.count("assignments_on_lines_created_by_a_gfa")
    if not connected:
        line = gfapy.Line(text, vlevel=lvl, **({"version": version} if version else {}))
    cell = "%s.%s=%r (level %d, %s%s)" % (text.split("\t")[0], field, value, lvl, case["how"], ", line created by a Gfa" if connected else "")

    if isinstance(value, str) and value.startswith("@") and value[1:].split(":")[0] in ("cigar1", "cigar2", "trace"):
        # a value object instead of its text
        what, txt = value[1:].split(":", 1)
        value = {"cigar1": lambda: gfapy.Alignment(txt, version="gfa1"), "cigar2": lambda: gfapy.Alignment(txt, version="gfa2"),
                 "trace": lambda: gfapy.Alignment(txt, version="gfa2")}[what]()
        ctx.count("value_object_assignments")

    def assign():
        if case["how"] == "attr":
            setattr(line, field, value)
        else:
            line.set(field, value)
    r = call(ctx, "assign", assign)
    ctx.count("assignments")
    ctx.add("assign_cells", "%s/%s/%d%s" % (kind, "valid" if valid else "invalid", lvl, "/object" if not isinstance(value, str) else ""))
    ctx.nontriv([case["field"], value, lvl, case["how"]])
    if valid:
        if not r.ok:
            ctx.violation("valid-assignment-refused/%s/level%d/%s" % (kind, lvl, r.cls()), "%s: %s" % (cell, str(r.exc)[:200]))
            return
        for what, fn in (("validate_field", lambda: line.validate_field(field)), ("validate", line.validate),
                         ("field_to_s", lambda: line.field_to_s(field)), ("get", lambda: line.get(field)),
                         ("str", lambda: str(line))):
            rr = call(ctx, what, fn)
            if not rr.ok or (what == "str" and "# INVALID" in rr.value):
                ctx.violation("valid-assignment-rejected-later/%s/%s/level%d" % (kind, what, lvl), "%s: %s -> %s"
                              % (cell, what, rr.cls() if not rr.ok else rr.value))
                return
        return
    # invalid value
    if r.ok and lvl >= 3:
        ctx.violation("invalid-assignment-not-reported-at-level-3/%s" % kind, cell)
        return
    if not r.ok:
        ctx.count("invalid_refused_at_assignment")
        if lvl < 3:
            ctx.count("invalid_refused_below_level_3")
        return
    # accepted at assignment (level < 3): explicit validation must report it at every level
    vf = call(ctx, "validate_field", line.validate_field, field)
    vl = call(ctx, "validate", line.validate)
    ctx.count("invalid_validated")
    if vf.ok or vl.ok:
        ctx.violation("invalid-value-passes-validation/%s/%s" % (kind, "validate_field" if vf.ok else "validate"),
                      "%s: validate_field -> %r, validate -> %r" % (cell, vf, vl))
        return
    if lvl >= 2:
        w = call(ctx, "str", str, line)
        fs = call(ctx, "field_to_s", line.field_to_s, field)
        if (w.ok and "# INVALID" not in w.value) or fs.ok:
            ctx.violation("invalid-value-written-at-level-2/%s" % kind, "%s: str -> %r, field_to_s -> %r"
                          % (cell, w.value if w.ok else w.cls(), fs.value if fs.ok else fs.cls()))
