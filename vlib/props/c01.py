"""C01 — parse -> write round trip preserves every record, field and tag."""
import os
import shutil
import tempfile
import gfapy
from ..gen import docs as G
from ..spec import grammar as S
from ..mon.client import call

ID = "C01"


class HarnessNote(Exception):
    pass

PROBES = ("raise", "lines")
MARKERS = ["# INVALID", "GFAPY_virtual_line", "line_created_by_gfapy", "?record_type?"]
ENTRIES = ["str", "strnl", "list", "lf", "crlf", "readfile", "progress", "lineobjs", "addline"]
_tmp = None


def setup(ctx):
    global _tmp
    _tmp = tempfile.mkdtemp(prefix="verif-c01-")


def finish(ctx):
    if _tmp:
        shutil.rmtree(_tmp, ignore_errors=True)


def cases(rng, tier, shard, nshards):
    i = 0
    while True:
        version = rng.choice(["gfa1", "gfa2"])
        canonical = rng.random() < 0.6
        dialect = "standard"
        if rng.random() < 0.12:
            version, dialect = "gfa1", "rgfa"
            d = G.gen_rgfa(rng, canonical=canonical)
        else:
            d = G.gen_doc(rng, version=version, canonical=canonical)
        lines = d.lines()
        both = False
        if version == "gfa1" and rng.random() < 0.35:
            # documented normalisation: a link supplied in both complement forms is stored once
            for l in list(lines):
                f = l.split("\t")
                if f[0] == "L" and rng.random() < 0.6:
                    c = S.link_complement_pos(f[1:6])
                    if c != f[1:6]:
                        lines.append("\t".join(["L"] + c + f[6:]))
                        both = True
        if rng.random() < 0.5 or both:
            rng.shuffle(lines)
        # all configurations for a document, so that distinct documents x configurations
        # are both explored
        cfgs = [(v, ev, e) for v in (0, 1, 2, 3) for ev in (False, True) for e in ENTRIES]
        rng.shuffle(cfgs)
        for (vl, ev, entry) in cfgs[:rng.choice([3, 6, 40])]:
            c = {"version": version, "lines": lines, "vlevel": vl, "explicit": ev, "entry": entry,
                 "canonical": canonical}
            if dialect != "standard":
                c["dialect"] = dialect
            yield c
            i += 1


def _kw(case):
    kw = {"vlevel": case["vlevel"]}
    if case["explicit"]:
        kw["version"] = case["version"]
    if case.get("dialect"):
        kw["dialect"] = case["dialect"]
    return kw


def _line_kw(case, line):
    rec = S.parse_line(line, case["version"])
    kw = {"vlevel": case["vlevel"]}
    if rec.rt not in "H#S" or len(rec.rt) > 1:
        kw["version"] = case["version"]
    if case.get("dialect"):
        kw["dialect"] = case["dialect"]
    return kw


def build(ctx, case, lines):
    kw = _kw(case)
    e = case["entry"]
    if e == "lineobjs":
        # the caller builds the line objects and hands them over
        objs = []
        for l in lines:
            lr = call(ctx, "Line(str)", gfapy.Line, l, **_line_kw(case, l))
            if not lr.ok:
                return lr
            objs.append(lr.value)
        return call(ctx, "Gfa(list of Line)", gfapy.Gfa, objs, **kw)
    if e == "addline":
        def incremental():
            g = gfapy.Gfa(**kw)
            for i, l in enumerate(lines):
                (g.add_line if i % 2 else g.append)(l)
            g.process_line_queue()
            if case["vlevel"] >= 1:
                g.validate()
            return g
        return call(ctx, "Gfa();add_line*", incremental)
    if e in ("readfile", "progress"):
        fn = os.path.join(_tmp, "in.gfa")
        with open(fn, "w", newline="") as f:
            f.write("\n".join(lines) + ("\n" if len(lines) % 2 else ""))
        def rd():
            g = gfapy.Gfa(**kw)
            if e == "progress":
                import io
                g.enable_progress_logging(part=0.3, channel=io.StringIO())
            r = g.read_file(fn)
            if r is not g:
                raise HarnessNote("read_file does not return the receiver")
            return g
        return call(ctx, "Gfa().read_file(%s)" % e, rd)
    if e == "str":
        return call(ctx, "Gfa(str)", gfapy.Gfa, "\n".join(lines), **kw)
    if e == "strnl":
        return call(ctx, "Gfa(str+newline)", gfapy.Gfa, "\n".join(lines) + "\n", **kw)
    if e == "list":
        return call(ctx, "Gfa(list)", gfapy.Gfa, list(lines), **kw)
    nl = "\n" if e == "lf" else "\r\n"
    fn = os.path.join(_tmp, "in.gfa")
    with open(fn, "w", newline="") as f:
        f.write(nl.join(lines) + nl)
    return call(ctx, "Gfa.from_file(%s)" % e, gfapy.Gfa.from_file, fn, **kw)


def written(ctx, case, g):
    """the text gfapy writes for g through the entry point's counterpart."""
    if case["entry"] in ("lf", "crlf", "readfile", "progress"):
        fn = os.path.join(_tmp, "out.gfa")
        r = call(ctx, "Gfa.to_file", g.to_file, fn)
        if not r.ok:
            return r, None
        with open(fn, newline="") as f:
            return r, f.read()
    r = call(ctx, "str(Gfa)", str, g)
    return r, r.value


def run(case, ctx):
    lines = case["lines"]
    version = case["version"]
    dts = set()
    rts = set()
    refbearing = False
    for l in lines:
        rec = S.parse_line(l, version)
        rt = rec.rt if rec.rt in "H#SLCPEFGOU" and len(rec.rt) == 1 else "custom"
        rts.add(rt)
        if rt in "LCPEFGOU":
            refbearing = True
        for n, d, v in rec.tags:
            dts.add(d)
            ctx.add("rt_x_dt", rt + "x" + d)
    for rt in rts:
        ctx.count("rt:" + rt)
    cfg = "v%d/%s/%s%s" % (case["vlevel"], "explicit" if case["explicit"] else "auto", case["entry"],
                           "/rgfa" if case.get("dialect") == "rgfa" else "")
    if case.get("dialect") == "rgfa":
        ctx.count("rgfa_documents")
    ctx.add("configs", cfg)
    if refbearing and len(dts) >= 3:
        ctx.nontriv([lines, cfg])
    ctx.sample(case)

    r = build(ctx, case, lines)
    ctx.count("roundtrips")
    if not r.ok:
        ctx.violation("valid-document-refused/%s/%s" % (r.cls(), _entry_class(case)),
                      "valid %s document refused (%s): %s" % (version, cfg, str(r.exc)[:300]))
        return
    g = r.value
    if g.version != version:
        ctx.violation("wrong-version", "document is %s, Gfa says %s" % (version, g.version), prop="C13")
    wr, W = written(ctx, case, g)
    if not wr.ok:
        ctx.violation("write-raises/%s/v%d" % (wr.cls(), case["vlevel"]), "%s: %s" % (cfg, str(wr.exc)[:300]))
        return
    wl = S.split_doc(W)
    for m in MARKERS:
        if any(m in l for l in wl):
            bad = [l for l in wl if m in l][0]
            ctx.violation("marker/%s/v%d" % (m.strip("# ?"), case["vlevel"]), "written line: %r" % bad)
            return
    want = _once(S.canon_doc(lines, version))
    got = _once(S.canon_doc(wl, version))
    if len(want) != len(S.canon_doc(lines, version)):
        ctx.count("documents_with_both_complement_forms")
    if want != got:
        missing = [x for x in want if x not in got]
        extra = [x for x in got if x not in want]
        rt = (missing or extra)[0][0]
        kind = "missing" if missing and not extra else "extra" if extra and not missing else "changed"
        ctx.violation("records-differ/%s/%s" % (rt, kind),
                      "%s\n missing: %r\n extra: %r" % (cfg, missing[:2], extra[:2]))
        return
    # fixed point: parse(write(parse(T))) writes the same text again
    kw = _kw(case)
    r2 = call(ctx, "Gfa(written)", gfapy.Gfa, "\n".join(wl), **kw)
    if not r2.ok:
        ctx.violation("written-text-refused/%s" % r2.cls(), "%s: %s" % (cfg, str(r2.exc)[:300]))
        return
    w2 = call(ctx, "str(Gfa)", str, r2.value)
    if not w2.ok:
        ctx.violation("write-raises/%s/v%d" % (w2.cls(), case["vlevel"]), cfg)
        return
    if S.split_doc(w2.value) != wl:
        a, b = S.split_doc(w2.value), wl
        d = [(x, y) for x, y in zip(a, b) if x != y][:2] or [(len(a), len(b))]
        ctx.violation("not-a-fixed-point/%s" % _first_rt(d), "%s: %r" % (cfg, d))
    ctx.count("fixed_points")
    # per-line round trip through gfapy.Line (version passed only where it is needed)
    for l in lines:
        rec = S.parse_line(l, version)
        lr = call(ctx, "Line(str)", gfapy.Line, l, **_line_kw(case, l))
        ctx.count("line_roundtrips")
        if not lr.ok:
            ctx.violation("valid-line-refused/%s/%s" % (rec.rt if len(rec.rt) == 1 else "custom", lr.cls()),
                          "%r: %s" % (l, str(lr.exc)[:200]))
            continue
        sr = call(ctx, "str(Line)", str, lr.value)
        if not sr.ok:
            ctx.violation("line-write-raises/%s/v%d" % (sr.cls(), case["vlevel"]), repr(l))
            continue
        if any(m in sr.value for m in MARKERS):
            ctx.violation("line-marker/%s" % rec.rt, "%r -> %r" % (l, sr.value))
            continue
        if S.canon_doc([sr.value], version, split_headers=False) != S.canon_doc([l], version, split_headers=False):
            ctx.violation("line-differs/%s" % (rec.rt if len(rec.rt) == 1 else "custom"),
                          "%r -> %r" % (l, sr.value))
        elif case["canonical"] and rec.rt != "H" and sr.value != l:
            # canonical spelling must come back textually (tag order included: reported
            # separately, informational only — C01 promises the tag *set*)
            ctx.count("canonical_respelled")


def _once(canon):
    """a link and its complement have one canonical form: it counts once."""
    out = []
    for x in canon:
        if x[0] == "L" and x in out:
            continue
        out.append(x)
    return out


def _entry_class(case):
    return "newline-terminated" if case["entry"] == "strnl" else case["entry"]


def _first_rt(d):
    try:
        return str(d[0][0]).split("\t")[0][:2]
    except Exception:
        return "?"
