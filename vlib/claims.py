"""What MANIFEST.json claims per property (text only; no gfapy import)."""
HOOK_COMMITS = []
NOTE = ("trusted base: CPython 3.12 of /venv, the harness in /verif/vlib (generators, monitors, reference models), "
        "icontract; holds only on the executions produced (bounded documents/histories, see evidence 'rule')")
CLAIMS = {
    "C01": {"text": "every generated valid document is parsed and written through each entry point and validation level while an oracle compares the written records with the input under the documented normalisations only, checks that nothing is flagged, and that writing is a textual fixed point; exploration is the right level because the claim is universal over documents and only sampled executions can be observed",
            "note": NOTE, "technique": "runtime monitoring: generated documents, text-level reference model as round-trip oracle"},
    "C02": {"text": "generated mutation histories (add in any order incl. forward references, rm by name/instance, disconnect, rename, tag edits) are executed on the real Gfa while an invariant walker, hooked on the outermost return of every mutating entry point, checks ownership, closure, lookup under the current identifier and exact reference/back-reference multiset symmetry through the public API",
            "note": NOTE, "technique": "runtime monitoring: quiescent-point invariant walker (closed/symmetric object graph) over generated mutation histories"},
    "C05": {"text": "after every successful step of a generated legal history the written content is compared with an independent text model of the edit (exact removal cascade, rename rewriting) and the full public observation with that of a Gfa parsed afresh from the model text",
            "note": NOTE, "technique": "runtime monitoring: history checker against an executable text model, step by step"},
    "C08": {"text": "mutation calls that the model marks as failing are interleaved with successful ones; a failure-atomicity guard snapshots the full public observation before each call and requires equality after every call that raised",
            "note": NOTE, "technique": "runtime monitoring: failure-atomicity guard (observation before/after every raising call) over generated histories"},
    "C09": {"text": "histories of additions and renames of every identified record type to fresh, in-use and placeholder-named identifiers; a namespace invariant walker (pairwise distinct identifiers, names == carriers, lookup returns the carrier) runs after every outermost mutation, clashes must raise NotUniqueError, successful renames are compared with the text model",
            "note": NOTE, "technique": "runtime monitoring: namespace invariant walker + model-checked history of clashes and renames"},
}
