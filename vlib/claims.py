"""What MANIFEST.json claims per property (text only; no gfapy import)."""
HOOK_COMMITS = []
NOTE = ("trusted base: CPython 3.12 of /venv, the harness in /verif/vlib (generators, monitors, reference models), "
        "icontract; holds only on the executions produced (bounded documents/histories, see evidence 'rule')")
CLAIMS = {
    "C01": {"text": "every generated valid document is parsed and written through each entry point and validation level while an oracle compares the written records with the input under the documented normalisations only, checks that nothing is flagged, and that writing is a textual fixed point; exploration is the right level because the claim is universal over documents and only sampled executions can be observed",
            "note": NOTE, "technique": "runtime monitoring: generated documents, text-level reference model as round-trip oracle"},
}
