"""Per-property metadata shared by parent and workers (must not import gfapy)."""
import json
import os

_HERE = os.path.dirname(os.path.realpath(__file__))


def anchors(prop):
    try:
        with open(os.path.join(_HERE, "..", "properties.jsonl")) as f:
            for l in f:
                p = json.loads(l)
                if p["id"] == prop:
                    return p["anchors"]["files"]
    except Exception:
        pass
    return []


COMMON_ASSUMPTIONS = [
    "executions are those produced by the seeded generators of vlib/gen within the stated bounds; nothing is claimed about inputs outside them",
    "the reference models in vlib/spec (written from the GFA specification and gfapy's documentation, never importing gfapy) are the oracle; gray zones listed in DESIGN.md §3.1 are not asserted",
    "gfapy is imported from GFAPY_ROOT (default /repo) working tree, CPython 3.12 of /venv, PYTHONHASHSEED=0",
]

META = {}


def meta(prop, rule, budget, min_counts=None, assumptions=(), exhaustive=None, set_samples=()):
    META[prop] = {"rule": rule, "budget": budget, "min": min_counts or {},
                  "assumptions": COMMON_ASSUMPTIONS + list(assumptions), "exhaustive": exhaustive,
                  "set_samples": list(set_samples)}


meta("C01",
     rule="documents drawn from the model grammar (G1, <=40 lines, GFA1 and GFA2, canonical and free spelling) x vlevel 0-3 x version explicit/auto x entry point (string, string+newline, list, file LF, file CRLF); a case is non-trivial when the document has >=1 reference-bearing record and >=3 distinct tag datatypes; distinct = distinct (document, configuration) hashes 12% rGFA documents (dialect='rgfa'); entry points also Gfa().read_file (with and without progress logging), lists of Line objects, add_line/append one by one. Custom record types spelled with the letters of the predefined ones.",
     budget={"quick": 22, "thorough": 300},
     min_counts={"quick": {"rgfa_documents": 500, "roundtrips": 2000, "rt:S": 1, "rt:L": 1, "rt:C": 1, "rt:P": 1, "rt:E": 1,
                           "rt:F": 1, "rt:G": 1, "rt:O": 1, "rt:U": 1, "rt:H": 1, "rt:#": 1,
                           "rt:custom": 1, "line_roundtrips": 2000,
                           "documents_with_both_complement_forms": 100}},
     set_samples=["rt_x_dt"])

meta("C02",
     rule="G3 histories (start document added in arbitrary order incl. forward references, then 4-20 (quick) / 4-60 (thorough) steps of add / rm by name / rm by instance / disconnect / rename / tag edits) over GFA1 and GFA2 pools with forced fan-out; the closed_symmetric walker runs after every outermost mutation; extra stratum: the repository's 365 tests run under the same walker (pytest plugin vlib/plug/pytest_walker.py); non-trivial = history with a cascading removal or a rename; distinct = hash of the step list",
     budget={"quick": 25, "thorough": 400},
     min_counts={"quick": {"invariant_evaluations": 1000, "op:rm": 100, "op:rename": 50, "cascading_removals": 50,
                           "testsuite_walker_runs": 2000}})
meta("C05",
     rule="G3 legal histories over GFA1/GFA2 documents; after every successful step the written content is compared with the text model (canonical multiset) and, when the model text is closed, the full observation with that of a Gfa parsed afresh from the model text; non-trivial = history with a cascading removal or a rename",
     budget={"quick": 30, "thorough": 400},
     min_counts={"quick": {"text_comparisons": 2000, "fresh_parse_comparisons": 1000, "cascading_removals": 50, "op:rename": 50}})
meta("C08",
     rule="G3 histories in which ~55% of the steps are calls the text model / grammar marks as failing (duplicate or clashing identifiers for every pair of record types, renames to identifiers in use, version conflicts, malformed lines, conflicting header values, edits of reference fields of connected lines, rm of unknown ids) interleaved with successful steps; full public observation compared before/after each raising call; non-trivial = history with >=1 raising call on a non-empty Gfa Probe steps: calls for which the text model has no verdict (identifiers mentioned in roles their carriers cannot play, lines taking the place of placeholders) are executed and, when they raise, must leave the observation unchanged; unknown-version scenarios include TS conflicts on VN headers. Level-0 unknown-version scenarios; header.add() call sequences with conflicting datatypes/values; group lines which define a tag of the group differently; the observation includes n_input_header_lines and the header values as returned by the API. Positional fields re-assigned on hand-built lines before add_line; header line objects of a lower level; the header VN given through attribute/set/add on a Gfa of unknown version holding lines kept aside.",
     budget={"quick": 25, "thorough": 400},
     min_counts={"quick": {"header_add_calls": 300, "header_line_objects_offered": 40, "header_adds_on_unknown_version": 25, "journal_refusals": 120, "foreign_line_objects_offered": 60, "probe_calls_failed": 400, "failing_calls": 1500}},
     set_samples=["failure_classes"])
meta("C09",
     rule="G3 histories with ~45% identifier clashes (additions and renames of every identified record type to identifiers in use by the same or another type) and legal renames; unique_names walker after every outermost mutation; model comparison after renames; non-trivial = history with a cross-type clash or a rename After every successful step a lookup oracle compares names/line()/segment() with the model (each identifier listed once and found as the real line that writes the model's record; freed identifiers not found), placeholders must exist exactly for mentioned-undefined identifiers, and line objects obtained earlier which claim to be connected must be the registered ones; L/C identifier tags are set, renamed and deleted; renames onto placeholders and to '*'. Probe calls (refused after they began to create references) with the placeholder oracle after every refused call. Registry coherence (every identifier a line carries is in names and is looked up to that line) at the end of every history and after a conversion of the Gfa.",
     budget={"quick": 25, "thorough": 400},
     min_counts={"quick": {"invariant_evaluations": 1000, "failing_calls": 300, "probe_calls": 300, "carried_identifiers_looked_up": 2500, "conversions_then_lookups": 100, "placeholder_oracle_evaluations": 1000, "op:rename": 50, "lookups": 5000,
                           "freed_lookups": 100, "unused_names_asked": 1000, "unused_names_asked_with_dangling_integer": 100}},
     set_samples=["clash_shapes"])

meta("C04",
     rule="(1) exhaustive enumeration of all strings of length <=3 (quick) / <=4 (thorough) over 7-17-symbol alphabets per datatype (7 tag datatypes + 18 positional datatypes) embedded in an otherwise valid carrier line, judged at vlevel 1 and 3 (distinct by construction); (2) generated valid lines/documents, their single-point mutants, cross-field documents (LN, path overlap count, beg<=end, $ position, undefined references, duplicate identifiers, predefined tag types, version mixing), rGFA documents; every case is classified VALID/INVALID/UNSPECIFIED by the independent recogniser and compared with construction + explicit validate(); non-trivial = classified VALID or INVALID (not UNSPECIFIED) Order twins and entry-point twins: the same lines in another order, or through another entry point, must get the same verdict whatever the verdict is (also where the recogniser is silent); multi-line group tag pairs; path/link overlap documents.",
     budget={"quick": 40, "thorough": 600},
     min_counts={"quick": {"strings_judged": 50000, "docs_judged": 500, "order_twins_judged": 4000, "entry_twins_judged": 2000, "lines_judged": 300}},
     exhaustive="strata (1) only: all strings up to the stated length over the per-datatype alphabets of vlib/gen/hostile.py",
     set_samples=["dt_verdicts", "doc_reasons"])

meta("C07",
     rule="G4 hostile text (empty/blank lines, every record letter with 0..10 fields from a pool of boundary atoms, printable/non-printable/non-ASCII garbage, very long fields, deep JSON) and single-point mutants of generated valid lines/documents, x vlevel 0-3 x version {None,gfa1,gfa2} x dialect, through Line(), Gfa(str|list), from_file, add_line; then follow-up public calls (line/segment/try_get_*/rm/validate/str, get/set/validate_field/field_to_s/delete/set_datatype) with hostile names and values; bin/gfapy-validate on generated files; every call runs under a logical step budget (5e6 + 5000*bytes function entries + loop back-edges inside gfapy/); non-trivial = case that reached a raise site not seen before in its shard Plus API-call histories (additions, removals, renames, tag and field edits incl. fragment external, probes) run through the client classifier; every field name of every record type is offered to set(); line instances are removed. Systematic stratum first: every field of every record type (64 slots) replaced by each of 36 atoms, levels 0/1/3, then a deterministic sweep (names, writers, validations, every field read, group resolution, removal of every line). One file in five of the file entry point carries bytes which are not UTF-8 text; line objects of valid documents with one field re-assigned (the field of another line, a shorter or longer list) are added to the Gfa of the other lines; the public parsers of field values (LastPos, Alignment, ByteArray, NumericArray.from_string, posvalue, SegmentEnd, OrientedLine, invert) get the hostile atoms; ID tags of every datatype among the systematic atoms.",
     budget={"quick": 35, "thorough": 500},
     min_counts={"quick": {"systematic_documents": 2500, "systematic_slots": 60, "files_with_undecodable_bytes": 100, "edited_lines_added": 300, "value_parser_calls": 30000, "files_read_with_progress_logging": 200, "deep_nesting_documents": 3, "histories": 200, "public_calls": 30000, "gfapy_errors": 5000, "cli_runs": 20}},
     assumptions=["missing or unreadable files are environment faults outside the claim (files whose bytes are not UTF-8 text are inside it since the eighth round)",
                  "termination is restated as bounded progress: no call may exceed the deterministic step budget; a wall-clock watchdog firing is inconclusive"])

meta("C03",
     rule="valid GFA1/GFA2 documents of 3..5 (quick) / 3..7 (thorough) lines with every record family: ALL n! arrival orders are executed and the full public observation (version, written records, namespace, per-line reference targets, per-collection back-references, path link direction flags) must be identical across orders, equal the model's neighbourhoods, and contain no placeholder for a defined identifier; larger documents (<=14 lines) with sampled orders; non-trivial = document with >=1 referencing record and >1 order; distinct = distinct documents 25% of the all-orders documents carry a twin record (two records written identically: C without ID, F, '*'-named E/G/O/U); reference targets are marked when they are placeholders or not the registered object. Sets defined on several U lines and paths on two O lines (tags of every datatype, distinct names) in sampled arrival orders, compared with the group the lines define; GFA1 documents in which paths state different overlaps over a link with unspecified overlap.",
     budget={"quick": 30, "thorough": 500},
     min_counts={"quick": {"documents_with_twin_records": 30, "multiline_group_orders": 1000, "incremental_builds": 3000, "multiline_backreferences_checked": 10000, "documents_at_level_0": 100, "documents_path-link-overlaps": 60, "permutations": 20000, "documents_all_orders": 100}},
     exhaustive=None)
meta("C13",
     rule="documents assembled from pools of GFA1-only, GFA2-only and version-neutral lines (pure, neutral, mixed; every line distinct so that multiplicity is observable) x explicit version {None,gfa1,gfa2} x dialect {standard,rgfa} x entry point {Gfa(list), Gfa(str), from_file} x vlevel; ALL permutations for documents of <=6 (quick) / <=7 (thorough) lines; expected version / VersionError from the independent line classifier; each input line must appear exactly once; non-trivial = document with a version-ambiguous line arriving before the deciding line 20% line-by-line scenarios: refused lines which hint at a version among neutral lines, then content of either version: the version follows from the accepted lines alone. Documents with a VN header naming a version which does not exist (1.1, 2.1, gfa1, ...): refused in every order. After a refused header VN the version must not be the refused one.",
     budget={"quick": 25, "thorough": 400},
     min_counts={"quick": {"unsupported_vn_documents_orders": 300, "objects_of_other_version_offered": 40, "header_vn_assignments": 40, "deciding_objects_offered": 30, "incremental_calls": 250, "incremental_refusals": 60, "orders": 20000, "documents_all_orders": 200}},
     set_samples=["kinds"])

meta("C10",
     rule="states built from generated GFA1/GFA2 documents (asymmetric CIGARs, paths, groups; vlevel 0-3, canonical and free spelling, so that lazily decoded fields exist) x random sequences of 10-40 calls drawn from the catalogue of read-only public queries (vlib/mon/catalogue.py: Gfa-, line-, segment-, edge-, link-, group- and alignment-level); every call is executed twice under the purity guard: full observation of the Gfa plus written form / repr of receiver and argument objects before, between and after, and both answers must agree; non-trivial = sequence touching a CIGAR with I/D or a lazily decoded / freely spelled field Canaries: fixed questions on two fixed graphs are answered before the first case and again after every case (process-level state left by a query changes a recorded answer); select by real field names.",
     budget={"quick": 30, "thorough": 450},
     min_counts={"quick": {"canary_answers": 40000, "guarded_calls": 10000, "queries_exercised": 155}},
     set_samples=["queries_exercised"])

meta("C12",
     rule="(1) exhaustively: 4 orientation pairs x {A->B, A->A, B->A} x all 1-operation and all ordered 2-operation CIGARs over M,I,D,P,=,X,H plus '*': complement text vs the model, involution, length exchange, symmetric and repeatable equivalence tests; (2) random links with CIGARs of <=6 operations: adding the complement of a stored link (either form stored) adds nothing and raises nothing, a link differing otherwise is a separate edge; paths over the link in both traversal directions x 6 arrival orders of P/L/S, the recorded direction flag is checked by interpreting it; non-trivial = overlap different from its own complement Two paths with different overlaps in opposite directions before the '*' link in either form.",
     budget={"quick": 20, "thorough": 300},
     min_counts={"quick": {"complements": 3000, "complements_after_edit": 8000, "placeholder_links_of_two_paths": 6000, "equivalence_tests": 20000, "complement_additions": 300, "path_resolutions": 600}},
     exhaustive="stratum (1): orientation pairs x segment pairs x all 1- and 2-operation CIGARs")

meta("C19",
     rule="every line of generated GFA1/GFA2 documents (all record types incl. header, comments, custom records; connected to a Gfa or stand-alone; vlevel 0-3) is cloned: detached, same written form, equal in both directions; an aliasing monitor compares by identity every mutable object (list, dict, CIGAR, Operation, Trace, NumericArray, OrientedLine, FieldArray) reachable from the public field values of both copies; in-place edit scripts on the clone (and on the original's tags) must leave the other copy and the Gfa textually unchanged; non-trivial = line with >=1 mutable-valued field",
     budget={"quick": 20, "thorough": 300},
     min_counts={"quick": {"clones": 20000, "copies_made_by_multiply": 120, "equalities_after_one_sided_read": 7000, "edit_scripts": 10000, "clone:S": 1, "clone:L": 1, "clone:C": 1, "clone:P": 1,
                           "clone:E": 1, "clone:F": 1, "clone:G": 1, "clone:O": 1, "clone:U": 1, "clone:H": 1,
                           "clone:#": 1, "clone:custom": 1}},
     set_samples=["cloned_mutable_kinds"])
meta("C20",
     rule="Python values of every supported kind (int, finite float, str, char, JSON list/dict, integer/float array, byte array) on and next to subtype/grammar boundaries, and values the datatype cannot represent (tab/newline/non-printable strings, non-finite floats, mixed/out-of-range/empty arrays, bytes > 255, JSON with non-printables), assigned by set() / attribute / after set_datatype on S, L, E, H lines at vlevel 0-3; checked: default datatype, validate_field, written tag vs the datatype grammar, smallest array subtype, read back through gfapy.Line(str(line)) equal with the same datatype; unrepresentable values must fail validation and not be written unflagged at level >= 2; distinct = (kind, value, way, level, carrier) 12% any-class cells (a Python value of any class offered to each declared datatype: never a foreign exception, never malformed text after passing validation); 25% of the good cases assign on a line whose clone got a value of another class under the same tag first; float arrays draw |x| >= 1e16. 30%: carriers of every record type (S L C P E F G O U custom) connected to a Gfa, then rename / further group line / re-add / re-parse before the read-back; 20%: the tag existed before with a value of another class and was removed (None or delete). Empty byte/numeric arrays among the unrepresentable values; at level 3 a refused first assignment of a new tag followed by a valid value of another class.",
     budget={"quick": 20, "thorough": 300},
     min_counts={"quick": {"connected_read_backs": 20000, "refused_then_assigned": 2000, "multi_valued_header_tags": 2000, "first_reads": 10000, "removed_then_assigned": 10000, "anyclass_assignments": 10000, "sibling_assignments": 10000, "assignments": 30000, "read_backs": 10000, "bad_values_validated": 2000, "kinds": 14}},
     set_samples=["kinds"])

meta("C11",
     rule="(1) exhaustive table: 4 orientation pairs x 7 x 7 interval kinds (empty prefix, prefix, whole, inner, empty inner, suffix, empty suffix) x both sid orders = 392 E lines, each as its own graph and all together; L/C/G lines and self-edges x 4 orientation pairs x {A->B, A->A, B->A} incl. parallel links; (2) random GFA1/GFA2 graphs with several edges per end, re-checked after 1-4 random removals/renames mirrored on the text model; every traversal collection, derived answer (neighbours, containers, contained), edge predicate, from/to/other end and Gfa-level dovetails/containments is compared with the independent model of vlib/spec/edges.py; distinct = table cells (by construction) + distinct random graphs 30% of the random cases are shared mutation histories (forward references, renames onto placeholders, cascades, re-additions) with the collections judged after every step. Histories contain refused and probe calls and the documented disconnect-edit-add-again of edges (judged after each); validation level 0-3 derived from the case; connected edges edited through their OrientedLine objects / GFA1-style attributes (refused or re-filed). other() asked with the segment instance and with its name.",
     budget={"quick": 20, "thorough": 240},
     min_counts={"quick": {"judged_after_refused_call": 800, "edits_through_value_objects": 1500, "other_calls/by-name": 30000, "checks_after_mutation": 4000, "table_cells": 392, "lcg_cells": 30, "collections_compared": 20000, "edge_predicates_compared": 2000, "checks_after_mutation": 2000}},
     exhaustive="table (1): 392 E-line cells + L/C/G/self-edge cells")
meta("C16",
     rule="GFA1/GFA2 graphs with isolated segments, trees, cycles, self-links, hairpins, parallel edges, containment-only and internal-only relations (plus generic generated documents); connected_components, segment_connected_component (by name and by instance) and the four counters are compared with an independent union-find / text count; then again after 0-4 random removals mirrored on the text model; remove_small_components vs component lengths; non-trivial = >=2 components and a cycle/self-link/hairpin/parallel/containment/internal feature 25% of the cases are shared mutation histories with components and counts judged after every step. Large graphs (chains, rings, two chains of 300-4000 segments); histories with refused/probe calls judged after each; levels 0-3.",
     budget={"quick": 20, "thorough": 240},
     min_counts={"quick": {"large_graphs_checked": 4, "judged_after_refused_call": 800, "checks_after_history_step": 4000, "component_computations": 10000, "counters_compared": 40000, "checks_after_mutation": 2000, "remove_small_components": 500}},
     set_samples=["shapes"])

meta("C18",
     rule="(a) generated valid documents built at levels 0,1,2,3: written text (textually for canonical spelling, canonically for free spelling) and full observation must agree; (b) hostile documents and mutants built at all four levels: acceptance must be monotone (accepted at k => accepted at every lower level); (c) assignment scripts: 24 positional fields/tags x valid and invalid values x levels 0-3 x set()/attribute, followed by validate_field, validate, field_to_s, get, str: invalid reported at the assignment at level 3, at the latest on write at level 2, by explicit validation at every level; valid never rejected; non-trivial = document with delayed-parsing datatypes, acceptance differing between levels, or any assignment; distinct by (document | field, value, level, way) Sequences on a new tag: value(s) unrepresentable in their own default datatype (refused at level 3), then a representable value of another class, which must be accepted with its documented default datatype.",
     budget={"quick": 25, "thorough": 360},
     min_counts={"quick": {"seq_valid_after_refused": 60, "header_inplace_edits": 30, "header_add_assignments": 300, "header_add_valid_after_refused": 30, "assignments_on_lines_created_by_a_gfa": 300, "value_object_assignments": 30, "level_builds": 4000, "monotonicity_builds": 4000, "assignments": 4000, "invalid_validated": 1200, "assign_cells": 250}})

meta("C14",
     rule="GFA1 (70%) and GFA2 graphs of 2-8 segments with M/=-only or '*' overlaps: backbone chains of 2-5 segments in every mix of orientations, rings, plus branches, self-links, hairpins on chain ends and inside, chains sharing junctions, with and without sequences; linear_paths() is compared with the independent chain finder (modulo reversal / ring rotation); after merge_linear_paths(): spelled sequence (orientation taken from the path gfapy reported), length, exact multiset of outward dovetails re-attached to the right ends, untouched segments, component partition, closed/symmetric object graph, idempotence; non-trivial = a chain of >=3 segments with mixed exit ends 30% of the merges use enable_tracking=True (the '^' marks in merged names are stripped before comparison). Graphs built at validation levels 0-3. gfapy's own component answers after every merge; one path turned round (in place and through reversed()) and merged on its own.",
     budget={"quick": 20, "thorough": 300},
     min_counts={"quick": {"merges_at_level_3": 1500, "component_answers_after_merge": 5000, "single_paths_reversed_then_merged": 250, "paths_given_as_strings_or_pairs": 200, "linear_path_calls": 5000, "merges_at_level_0": 1500, "merges_with_enable_tracking": 1000, "linear_paths_calls": 8000, "merges": 5000, "invariant_evaluations": 3000}},
     set_samples=["features", "chain_lengths"])

meta("C15",
     rule="GFA1 (70%) / GFA2 graphs of 2-5 segments (names incl. ones ending in *n) with count tags, several dovetails per end, parallel links, containments, self-links, named edges; multiply(segment by name or instance, k in -1..4, distribute in {None, off, auto, equal, L, R}, given or automatic copy names); the text before/after is compared by an independent model: number/freshness/requested names of copies, identical fields and tags, count tags of segment and edges divided (floor..ceil), every dovetail/containment copied to the same neighbours with the same orientation/overlap, no invented edge, distribution semantics (every former neighbour stays linked, at most one end distributed), factor 1 / 0 / negative, rest of the graph textually unchanged, object graph closed and symmetric; non-trivial = segment with >=2 dovetails on one end or a containment and k>=2 Automatic copy names taken by the ID of a containment, by a gap, or only referred to in a graph under construction.",
     budget={"quick": 20, "thorough": 300},
     min_counts={"quick": {"multiplications": 6000, "prelude_operations": 2000, "graphs_under_construction": 400, "apply_copy_numbers_calls": 300, "invariant_evaluations": 4000, "configs": 30}},
     set_samples=["configs"])

meta("C17",
     rule="GFA2 graphs of 2-6 segments and named edges; (a) ordered groups generated as presentations of a known alternating walk: full, segments only (edges implied where exactly one fits), edges only (segments implied), mixed omissions, nested sub-paths referenced + or - ; captured_path/segments/edges must equal the walk; (b) deliberately broken lists (foreign segment, ambiguous parallel edges, non-adjacent segments) must raise; (c) unordered groups over segments, edges, paths and nested sets: induced segments/edges/set vs an independent closure; (d) multi-line U/O definitions in ALL arrival orders of the group lines (<=4 lines): items concatenated in arrival order, tags united; documents are shuffled; non-trivial = nested or abbreviated or reversed presentation, broken list, set, multi-line group 40% of the graphs are built line by line with every group queried after each arrival (answers on the incomplete graph are not judged); twin unnamed identical edges as the only fitting edges must give the ambiguity error; group lines given as Line objects must be disconnected once merged. Nested paths whose listing begins/ends with an edge item (only lists on which the 'items in place' and 'walk in place' readings agree), a third nesting level, and multi-line groups nested in other groups with the outer lines arriving before/between/after the inner lines.",
     budget={"quick": 20, "thorough": 300},
     min_counts={"quick": {"nested_paths_with_edge_ends": 300, "multiline_groups_before_their_items": 3000, "nested_multiline_resolutions": 15000, "early_queries": 20000, "stale_objects_checked": 5000, "captured_paths": 5000, "rejected_lists": 1000, "induced_sets": 3000, "multiline_orders": 3000, "item_kinds": 4}},
     set_samples=["kinds", "item_kinds"])

meta("C06",
     rule="GFA1 graphs whose segments have a length and whose overlaps are specified, asymmetric CIGARs (I/D/P), every orientation pair, self-links, containments at offset 0 / inner / flush right, linear, circular and single-segment paths traversing links in either direction, named and unnamed edges, tags; GFA2 graphs from G1 with CIGAR or '*' alignments; whole-graph conversion in both directions (string and Gfa), line-level refusals, there-and-back; edges are compared in the E-line semantic normal form (the four spellings under sid swap => I<->D and orientation flip => reversed operations) computed by an independent model from CIGAR reference/query lengths and segment lengths; converted text must be VALID for the target grammar and accepted by Gfa(vlevel=3).validate(); bin/gfapy-convert sampled; non-trivial = graph with an alignment that is not its own swap/reverse Several P lines per document, also the same walk the other way round, lines in any arrival order. 8%: links/containments whose overlaps use GFA1-only operations (= X N S H): refusal, omission or valid GFA2, never invalid text (Gfa, line level, CLI); circular paths of one segment over a self-link. '$' rule on every position of every converted E/F line; links covering a whole segment; GFA2 graphs written from an independent link model with ordered groups in six presentations (segments, alternating, edges only, edge first/last/both) converted 2->1 and compared segment by segment and overlap by overlap.",
     budget={"quick": 25, "thorough": 360},
     min_counts={"quick": {"gfa1_only_alignment_conversions": 2000, "whole_segment_overlap_conversions": 120, "positions_checked_for_$": 30000, "paths_compared_2to1": 500, "conversions_after_edge_replacement": 150, "groups_over_containments_converted": 40, "no_counterpart_object_conversions": 80, "no_counterpart_conversions": 150, "conversions_after_edit": 100, "conversions_1to2": 3000, "conversions_2to1": 1200, "edges_compared": 8000, "round_trips": 4000, "paths_compared": 500, "line_level_refusals": 500}},
     assumptions=["containments whose container orientation is '-' (GFA1 does not say on which strand pos counts), dovetails spanning a whole segment, trace alignments and internal edges are outside the comparison (DESIGN 3.1)"])
