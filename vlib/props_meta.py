"""Per-property metadata shared by parent and workers (must not import gfapy)."""
import json
import os

_HERE = os.path.dirname(os.path.realpath(__file__))


def anchors(prop):
    try:
        with open(os.path.join(_HERE, "..", "properties.jsonl")) as f:
            for l in f:
                p = json.loads(l)
                if p["id"] == prop:
                    return p["anchors"]["files"]
    except Exception:
        pass
    return []


COMMON_ASSUMPTIONS = [
    "executions are those produced by the seeded generators of vlib/gen within the stated bounds; nothing is claimed about inputs outside them",
    "the reference models in vlib/spec (written from the GFA specification and gfapy's documentation, never importing gfapy) are the oracle; gray zones listed in DESIGN.md §3.1 are not asserted",
    "gfapy is imported from GFAPY_ROOT (default /repo) working tree, CPython 3.12 of /venv, PYTHONHASHSEED=0",
]

META = {}


def meta(prop, rule, budget, min_counts=None, assumptions=(), exhaustive=None, set_samples=()):
    META[prop] = {"rule": rule, "budget": budget, "min": min_counts or {},
                  "assumptions": COMMON_ASSUMPTIONS + list(assumptions), "exhaustive": exhaustive,
                  "set_samples": list(set_samples)}


meta("C01",
     rule="documents drawn from the model grammar (G1, <=40 lines, GFA1 and GFA2, canonical and free spelling) x vlevel 0-3 x version explicit/auto x entry point (string, string+newline, list, file LF, file CRLF); a case is non-trivial when the document has >=1 reference-bearing record and >=3 distinct tag datatypes; distinct = distinct (document, configuration) hashes",
     budget={"quick": 22, "thorough": 300},
     min_counts={"quick": {"roundtrips": 2000, "rt:S": 1, "rt:L": 1, "rt:C": 1, "rt:P": 1, "rt:E": 1,
                           "rt:F": 1, "rt:G": 1, "rt:O": 1, "rt:U": 1, "rt:H": 1, "rt:#": 1,
                           "rt:custom": 1, "line_roundtrips": 2000}},
     set_samples=["rt_x_dt"])
