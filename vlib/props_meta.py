"""Per-property metadata shared by parent and workers (must not import gfapy)."""
import json
import os

_HERE = os.path.dirname(os.path.realpath(__file__))


def anchors(prop):
    try:
        with open(os.path.join(_HERE, "..", "properties.jsonl")) as f:
            for l in f:
                p = json.loads(l)
                if p["id"] == prop:
                    return p["anchors"]["files"]
    except Exception:
        pass
    return []


COMMON_ASSUMPTIONS = [
    "executions are those produced by the seeded generators of vlib/gen within the stated bounds; nothing is claimed about inputs outside them",
    "the reference models in vlib/spec (written from the GFA specification and gfapy's documentation, never importing gfapy) are the oracle; gray zones listed in DESIGN.md §3.1 are not asserted",
    "gfapy is imported from GFAPY_ROOT (default /repo) working tree, CPython 3.12 of /venv, PYTHONHASHSEED=0",
]

META = {}


def meta(prop, rule, budget, min_counts=None, assumptions=(), exhaustive=None, set_samples=()):
    META[prop] = {"rule": rule, "budget": budget, "min": min_counts or {},
                  "assumptions": COMMON_ASSUMPTIONS + list(assumptions), "exhaustive": exhaustive,
                  "set_samples": list(set_samples)}


meta("C01",
     rule="documents drawn from the model grammar (G1, <=40 lines, GFA1 and GFA2, canonical and free spelling) x vlevel 0-3 x version explicit/auto x entry point (string, string+newline, list, file LF, file CRLF); a case is non-trivial when the document has >=1 reference-bearing record and >=3 distinct tag datatypes; distinct = distinct (document, configuration) hashes",
     budget={"quick": 22, "thorough": 300},
     min_counts={"quick": {"roundtrips": 2000, "rt:S": 1, "rt:L": 1, "rt:C": 1, "rt:P": 1, "rt:E": 1,
                           "rt:F": 1, "rt:G": 1, "rt:O": 1, "rt:U": 1, "rt:H": 1, "rt:#": 1,
                           "rt:custom": 1, "line_roundtrips": 2000}},
     set_samples=["rt_x_dt"])

meta("C02",
     rule="G3 histories (start document added in arbitrary order incl. forward references, then 4-20 (quick) / 4-60 (thorough) steps of add / rm by name / rm by instance / disconnect / rename / tag edits) over GFA1 and GFA2 pools with forced fan-out; the closed_symmetric walker runs after every outermost mutation; non-trivial = history with a cascading removal or a rename; distinct = hash of the step list",
     budget={"quick": 25, "thorough": 400},
     min_counts={"quick": {"invariant_evaluations": 1000, "op:rm": 100, "op:rename": 50, "cascading_removals": 50}})
meta("C05",
     rule="G3 legal histories over GFA1/GFA2 documents; after every successful step the written content is compared with the text model (canonical multiset) and, when the model text is closed, the full observation with that of a Gfa parsed afresh from the model text; non-trivial = history with a cascading removal or a rename",
     budget={"quick": 30, "thorough": 400},
     min_counts={"quick": {"text_comparisons": 2000, "fresh_parse_comparisons": 1000, "cascading_removals": 50, "op:rename": 50}})
meta("C08",
     rule="G3 histories in which ~55% of the steps are calls the text model / grammar marks as failing (duplicate or clashing identifiers for every pair of record types, renames to identifiers in use, version conflicts, malformed lines, conflicting header values, edits of reference fields of connected lines, rm of unknown ids) interleaved with successful steps; full public observation compared before/after each raising call; non-trivial = history with >=1 raising call on a non-empty Gfa",
     budget={"quick": 25, "thorough": 400},
     min_counts={"quick": {"failing_calls": 1500}},
     set_samples=["failure_classes"])
meta("C09",
     rule="G3 histories with ~45% identifier clashes (additions and renames of every identified record type to identifiers in use by the same or another type) and legal renames; unique_names walker after every outermost mutation; model comparison after renames; non-trivial = history with a cross-type clash or a rename",
     budget={"quick": 25, "thorough": 400},
     min_counts={"quick": {"invariant_evaluations": 1000, "failing_calls": 300, "op:rename": 50}},
     set_samples=["clash_shapes"])

meta("C04",
     rule="(1) exhaustive enumeration of all strings of length <=3 (quick) / <=4 (thorough) over 7-17-symbol alphabets per datatype (7 tag datatypes + 18 positional datatypes) embedded in an otherwise valid carrier line, judged at vlevel 1 and 3 (distinct by construction); (2) generated valid lines/documents, their single-point mutants, cross-field documents (LN, path overlap count, beg<=end, $ position, undefined references, duplicate identifiers, predefined tag types, version mixing), rGFA documents; every case is classified VALID/INVALID/UNSPECIFIED by the independent recogniser and compared with construction + explicit validate(); non-trivial = classified VALID or INVALID (not UNSPECIFIED)",
     budget={"quick": 40, "thorough": 600},
     min_counts={"quick": {"strings_judged": 50000, "docs_judged": 500, "lines_judged": 300}},
     exhaustive="strata (1) only: all strings up to the stated length over the per-datatype alphabets of vlib/gen/hostile.py",
     set_samples=["dt_verdicts", "doc_reasons"])

meta("C07",
     rule="G4 hostile text (empty/blank lines, every record letter with 0..10 fields from a pool of boundary atoms, printable/non-printable/non-ASCII garbage, very long fields, deep JSON) and single-point mutants of generated valid lines/documents, x vlevel 0-3 x version {None,gfa1,gfa2} x dialect, through Line(), Gfa(str|list), from_file, add_line; then follow-up public calls (line/segment/try_get_*/rm/validate/str, get/set/validate_field/field_to_s/delete/set_datatype) with hostile names and values; bin/gfapy-validate on generated files; every call runs under a logical step budget (5e6 + 5000*bytes function entries + loop back-edges inside gfapy/); non-trivial = case that reached a raise site not seen before in its shard",
     budget={"quick": 35, "thorough": 500},
     min_counts={"quick": {"public_calls": 30000, "gfapy_errors": 5000, "cli_runs": 20}},
     assumptions=["files are written as UTF-8 text; undecodable bytes and missing files are environment faults outside the claim",
                  "termination is restated as bounded progress: no call may exceed the deterministic step budget; a wall-clock watchdog firing is inconclusive"])
