"""Worker process: runs one shard of one property's workload with monitors on.

usage: python -m vlib.worker --prop C01 --tier quick --seed 0 --shard 3 --nshards 16 --out f.json
       python -m vlib.worker --prop C01 --replay file.json
"""
import argparse
import importlib
import json
import os
import random
import sys
import time
import traceback


def main():
    ap = argparse.ArgumentParser()
    ap.add_argument("--prop", required=True)
    ap.add_argument("--tier", default="quick")
    ap.add_argument("--seed", type=int, default=0)
    ap.add_argument("--shard", type=int, default=0)
    ap.add_argument("--nshards", type=int, default=1)
    ap.add_argument("--out")
    ap.add_argument("--replay")
    ap.add_argument("--budget", type=float, default=None)
    ap.add_argument("--maxcases", type=int, default=None)
    a = ap.parse_args()

    root = os.path.realpath(os.environ.get("GFAPY_ROOT", "/repo"))
    from vlib.ctx import Ctx, HarnessError, h64
    import gfapy
    gf = os.path.realpath(gfapy.__file__)
    if not gf.startswith(root + os.sep):
        print(json.dumps({"type": "fatal", "reason": "gfapy imported from %s, not under %s" % (gf, root)}))
        if a.out:
            with open(a.out, "w") as f:
                json.dump({"type": "fatal", "reason": "gfapy not under GFAPY_ROOT (%s)" % gf}, f)
        sys.exit(2)

    mod = importlib.import_module("vlib.props." + a.prop.lower())
    from vlib.props_meta import META, anchors
    budget = a.budget if a.budget is not None else META[a.prop]["budget"][a.tier]
    ctx = Ctx(a.prop, a.tier, a.seed, a.shard, a.nshards, budget)
    ctx.gfapy_file = gf

    from vlib.mon import sysmon, hooks
    probes = sysmon.Probes(root)
    ctx.probes = probes
    want = getattr(mod, "PROBES", ("raise", "lines"))
    probes.install(raises="raise" in want, lines=("lines" in want and a.shard == 0),
                   steps="steps" in want, anchors=anchors(a.prop))
    hooks.install(ctx)          # M4/M5/M7 wrappers (bystander monitors)
    if hasattr(mod, "setup"):
        mod.setup(ctx)

    if a.replay:
        with open(a.replay) as f:
            rp = json.load(f)
        case = rp["case"]
        ctx.case = case
        ctx.case_index = rp.get("index", 0)
        ctx.verbose = True
        try:
            mod.run(case, ctx)
        except HarnessError as e:
            print("INCONCLUSIVE harness:", e)
        print(json.dumps({"violations": ctx.violations, "bystanders": ctx.bystanders,
                          "counters": ctx.counters}, indent=1, default=repr))
        if ctx.violations:
            for v in ctx.violations:
                print("VIOLATION property=%s key=%s replay=%s" % (a.prop, v["key"], a.replay))
            sys.exit(1)
        sys.exit(0)

    rng = random.Random(h64([a.seed, a.prop, a.shard, a.tier]))
    progress = a.out + ".progress" if a.out else None
    n = 0
    try:
        for i, case in enumerate(mod.cases(rng, a.tier, a.shard, a.nshards)):
            if ctx.out_of_time() or (a.maxcases and n >= a.maxcases):
                ctx.notes["stopped"] = "budget"
                break
            ctx.case = case
            ctx.case_index = i
            vkeys_before = dict(ctx.vkeys)
            if progress and (i % 50 == 0):
                with open(progress, "w") as f:
                    json.dump({"index": i, "case": case}, f, default=repr)
            try:
                mod.run(case, ctx)
            except HarnessError as e:
                ctx.inconc("harness: %s" % e)
            except sysmon.StepBudgetExceeded as e:
                ctx.inconc("step budget leaked out of a guarded call: %s" % e)
            except RecursionError:
                ctx.inconc("RecursionError in harness code\n" + traceback.format_exc()[-1500:])
            except Exception:
                ctx.inconc("harness exception:\n" + traceback.format_exc()[-1500:])
            n += 1
            ctx.count("cases")
            if i % 20 == 7 and not getattr(mod, "NO_TRANSPARENCY", False):
                # monitor transparency (DESIGN 7.2): the same case once more with the walker
                # suspended, on a scratch context; the verdicts of the property must not depend
                # on whether the bystander monitors ran
                own = sorted(k for k, c in ctx.vkeys.items() if c > vkeys_before.get(k, 0))
                scratch = Ctx(a.prop, a.tier, a.seed, a.shard, a.nshards, budget)
                scratch.probes = probes
                scratch.case = case
                scratch.case_index = i
                try:
                    with hooks.suspended():
                        mod.run(case, scratch)
                    other = sorted(scratch.vkeys)
                    ctx.count("transparency_reruns")
                    if own != other:
                        ctx.count("transparency_mismatches")
                        ctx.notes.setdefault("transparency_mismatch", "case %d: with walker %r, without %r" % (i, own, other))
                except Exception as e:
                    ctx.count("transparency_rerun_errors")
                    ctx.notes.setdefault("transparency_rerun_error", repr(e)[:300])
        else:
            ctx.notes["stopped"] = "exhausted"
    finally:
        probes.uninstall()
    if hasattr(mod, "finish"):
        mod.finish(ctx)
    s = ctx.summary()
    s["raise_sites"] = sorted(["%s:%s:%s" % k for k in probes.raise_sites])
    if probes.anchor_files:
        s["anchor_coverage"] = probes.coverage()
    s["gfapy_file"] = gf
    s["hook_counts"] = hooks.counts()
    if a.out:
        with open(a.out, "w") as f:
            json.dump(s, f, default=repr)
        if progress and os.path.exists(progress):
            os.unlink(progress)
    else:
        s.pop("nontrivial")
        print(json.dumps(s, indent=1, default=repr)[:20000])


if __name__ == "__main__":
    main()
