"""Parent process of ./check: shards a property's workload over worker subprocesses,
aggregates, matches violations against known_findings.json, writes evidence + replays."""
import argparse
import fnmatch
import importlib
import json
import os
import subprocess
import sys
import time

VERIF = os.path.realpath(os.path.join(os.path.dirname(__file__), ".."))
PY = os.environ.get("VERIF_PYTHON", "/venv/bin/python")


def env_for_workers(root):
    env = dict(os.environ)
    env["PYTHONPATH"] = os.pathsep.join([root, os.path.join(VERIF, ".deps"), VERIF])
    env["PYTHONDONTWRITEBYTECODE"] = "1"
    env["PYTHONHASHSEED"] = "0"
    env["GFAPY_ROOT"] = root
    env["GFAPY_VERIF"] = "1"
    return env


def git_state(root):
    try:
        head = subprocess.run(["git", "-C", root, "rev-parse", "HEAD"], capture_output=True, text=True,
                              timeout=20).stdout.strip()
        dirty = subprocess.run(["git", "-C", root, "status", "--porcelain", "--", "gfapy", "bin"],
                               capture_output=True, text=True, timeout=20).stdout.strip() != ""
        return head, dirty
    except Exception:
        return None, None


def hash_str(s):
    import zlib
    return zlib.crc32(s.encode())


def load_known(prop):
    p = os.path.join(VERIF, "known_findings.json")
    if not os.path.exists(p):
        return []
    with open(p) as f:
        data = json.load(f)
    return [e for e in data.get("findings", []) if e.get("property") == prop and e.get("status") == "known"]


def main(argv=None):
    ap = argparse.ArgumentParser(prog="check")
    ap.add_argument("prop")
    ap.add_argument("--tier", default=None)
    ap.add_argument("--seed", type=int, default=None)
    ap.add_argument("--shards", type=int, default=None)
    ap.add_argument("--replay")
    ap.add_argument("--budget", type=float, default=None)
    ap.add_argument("--no-evidence", action="store_true")
    ap.add_argument("--show-bystanders", action="store_true")
    a = ap.parse_args(argv)
    prop = a.prop.upper()
    tier = os.environ.get("VERIF_TIER") or a.tier or "quick"
    if a.tier and not os.environ.get("VERIF_TIER"):
        tier = a.tier
    if tier not in ("quick", "thorough"):
        tier = "quick"
    seed = a.seed if a.seed is not None else int(os.environ.get("VERIF_SEED", "0") or 0)
    root = os.path.realpath(os.environ.get("GFAPY_ROOT", "/repo"))
    env = env_for_workers(root)

    if not os.path.isdir(os.path.join(VERIF, ".deps")):
        subprocess.run([os.path.join(VERIF, "setup.sh")], cwd=VERIF, stdout=subprocess.DEVNULL,
                       stderr=subprocess.DEVNULL)

    if a.replay:
        r = subprocess.run([PY, "-B", "-m", "vlib.worker", "--prop", prop, "--replay", a.replay],
                           env=env, cwd=VERIF)
        return r.returncode

    sys.path.insert(0, VERIF)
    nshards = a.shards or int(os.environ.get("VERIF_SHARDS", "0") or 0) or min(16, os.cpu_count() or 4)
    # a tree other than /repo (seeded change in a scratch worktree) gets its own work and replay
    # names, so that several trees can be checked at the same time
    alt = "" if root == "/repo" else "-alt%08x" % (hash_str(root) & 0xffffffff)
    work = os.path.join(VERIF, ".work", prop + alt)
    os.makedirs(work, exist_ok=True)
    for f in os.listdir(work):
        try:
            os.unlink(os.path.join(work, f))
        except OSError:
            pass
    t0 = time.monotonic()
    procs = []
    for i in range(nshards):
        out = os.path.join(work, "shard-%d.json" % i)
        cmd = [PY, "-B", "-m", "vlib.worker", "--prop", prop, "--tier", tier, "--seed", str(seed),
               "--shard", str(i), "--nshards", str(nshards), "--out", out]
        if a.budget is not None:
            cmd += ["--budget", str(a.budget)]
        log = open(os.path.join(work, "shard-%d.log" % i), "w")
        procs.append((i, out, subprocess.Popen(cmd, env=env, cwd=VERIF, stdout=log, stderr=subprocess.STDOUT), log))
    # generous wall-clock watchdog: its firing is inconclusive, never a violation
    budget = a.budget
    if budget is None:
        budget = float(importlib.import_module("vlib.props_meta").META[prop]["budget"][tier])
    deadline = t0 + max(900.0, budget * 12)
    inconclusive = []
    for i, out, p, log in procs:
        try:
            p.wait(timeout=max(1.0, deadline - time.monotonic()))
        except subprocess.TimeoutExpired:
            p.kill()
            inconclusive.append("watchdog killed shard %d" % i)
        log.close()

    # ---------------------------------------------------------------- aggregate
    counters, vkeys, bystanders, samples = {}, {}, {}, []
    violations = []
    nontrivial = set()
    nontrivial_enum = 0
    sets = {}
    raise_sites = set()
    anchor_cov = None
    gfapy_file = None
    notes = {}
    hook_counts = {}
    bystander_samples = {}
    for i, out, p, log in procs:
        if not os.path.exists(out):
            prog = out + ".progress"
            last = ""
            if os.path.exists(prog):
                last = open(prog).read()[:800]
            tail = ""
            try:
                tail = open(os.path.join(work, "shard-%d.log" % i)).read()[-800:]
            except OSError:
                pass
            inconclusive.append("shard %d died (rc=%s) near case %s\n%s" % (i, p.returncode, last, tail))
            continue
        with open(out) as f:
            s = json.load(f)
        if s.get("type") == "fatal":
            inconclusive.append("shard %d: %s" % (i, s.get("reason")))
            continue
        for k, v in s["counters"].items():
            counters[k] = counters.get(k, 0) + v
        for k, v in s["vkeys"].items():
            vkeys[k] = vkeys.get(k, 0) + v
        for k, v in s["bystanders"].items():
            bystanders[k] = bystanders.get(k, 0) + v
        for k, v in s.get("bystander_samples", {}).items():
            bystander_samples.setdefault(k, v)
        for v in s["violations"]:
            v["shard"] = i
            violations.append(v)
        if len(samples) < 8:
            samples += s["samples"][:2]
        nontrivial.update(s["nontrivial"])
        nontrivial_enum += s["nontrivial_enum"]
        for k, v in s["sets"].items():
            sets.setdefault(k, set()).update(map(_hashable, v))
        raise_sites.update(s.get("raise_sites", []))
        if s.get("anchor_coverage"):
            anchor_cov = s["anchor_coverage"]
        gfapy_file = s.get("gfapy_file")
        for k, v in s.get("hook_counts", {}).items():
            hook_counts[k] = hook_counts.get(k, 0) + v
        for r in s["inconclusive"]:
            if len(inconclusive) < 10:
                inconclusive.append("shard %d: %s" % (i, r))
        for k, v in s.get("notes", {}).items():
            notes.setdefault(k, set()).add(str(v))
    wall = time.monotonic() - t0

    mod = importlib.import_module("vlib.props_meta")
    meta = mod.META[prop]
    # minimum observation counts: a deciding monitor that observed nothing => inconclusive
    for cname, minimum in meta.get("min", {}).get(tier, meta.get("min", {}).get("quick", {})).items():
        have = counters.get(cname, hook_counts.get(cname, len(sets.get(cname, ()))))
        if have < minimum:
            inconclusive.append("monitor counter %s=%d below its minimum %d" % (cname, have, minimum))

    known = load_known(prop)
    unknown_keys, known_seen = {}, {}
    for key, n in sorted(vkeys.items()):
        hit = None
        for e in known:
            if fnmatch.fnmatchcase(key, e["key"]):
                hit = e
                break
        if hit is not None:
            known_seen.setdefault(hit["key"], [hit, 0])[1] += n
        else:
            unknown_keys[key] = n

    os.makedirs(os.path.join(VERIF, "replays"), exist_ok=True)
    replay_paths = {}
    for key in unknown_keys:
        ws = sorted([v for v in violations if v["key"] == key], key=lambda v: v["size"])
        w = ws[0]
        fn = os.path.join(VERIF, "replays", "%s%s-%s-%s.json" % (prop, alt, tier, _slug(key)))
        with open(fn, "w") as f:
            json.dump({"property": prop, "tier": tier, "seed": seed, "shard": w.get("shard"),
                       "index": w.get("index"), "key": key, "detail": w["detail"], "case": w["case"]},
                      f, indent=1, default=repr)
        replay_paths[key] = fn

    head, dirty = git_state(root)
    distinct = len(nontrivial) + nontrivial_enum
    coverage = {
        "evaluations": counters.get("cases", 0),
        "distinct_nontrivial": distinct,
        "rule": meta["rule"],
        "samples": samples[:8] or ["(no case was executed)"],
        "counters": counters,
        "distinct_sets": {k: len(v) for k, v in sets.items()},
        "hook_counts": hook_counts,
        "raise_sites_reached": len(raise_sites),
        "raise_sites": sorted(raise_sites)[:400],
        "known_findings_seen": {k: v[1] for k, v in known_seen.items()},
        "violation_keys": vkeys,
        "bystanders": bystanders,
        "bystander_samples": {k: v["detail"] for k, v in list(bystander_samples.items())[:20]},
        "inconclusive": inconclusive,
        "shards": nshards,
        "gfapy_file": gfapy_file,
        "repo_head": head, "repo_dirty": dirty,
        "notes": {k: sorted(v) for k, v in notes.items()},
    }
    for k in meta.get("set_samples", []):
        coverage.setdefault("set_members", {})[k] = sorted(map(str, sets.get(k, ())))[:200]
    if anchor_cov:
        coverage["anchor_coverage"] = anchor_cov
    nsum = sum(1 for (_i, out, _p, _l) in procs if os.path.exists(out))
    complete = (notes.get("stopped") == {"exhausted"} or
                (notes.get("exhaustive_stratum") == {"complete"} and
                 counters.get("exhaustive_strata_completed", 0) == nsum == nshards))
    if meta.get("exhaustive") and complete and not inconclusive:
        coverage["exhaustive"] = True
        coverage["exhaustive_domain"] = meta["exhaustive"]
    ev = {
        "property_id": prop, "tier": tier, "seed": seed, "level": "exploration",
        "coverage": coverage,
        "assumptions": meta.get("assumptions", []),
        "wall_s": round(wall, 2),
        "violations": sum(unknown_keys.values()),
    }
    if not a.no_evidence:
        os.makedirs(os.path.join(VERIF, "evidence"), exist_ok=True)
        with open(os.path.join(VERIF, "evidence", prop + ".json"), "w") as f:
            json.dump(ev, f, indent=1, default=repr)

    # ------------------------------------------------------------------ verdict
    print("%s tier=%s seed=%d cases=%d distinct_nontrivial=%d wall=%.1fs raise_sites=%d"
          % (prop, tier, seed, counters.get("cases", 0), distinct, wall, len(raise_sites)))
    for k, (e, n) in sorted(known_seen.items()):
        print("KNOWN-FINDING: property=%s %s: %s (seen %d times)" % (prop, e["key"], e["what"], n))
    if counters.get("transparency_mismatches"):
        print("NOTE monitor transparency: %d of %d re-runs without the walker gave other verdicts (%s)"
              % (counters["transparency_mismatches"], counters.get("transparency_reruns", 0),
                 "; ".join(sorted(notes.get("transparency_mismatch", []))[:2])))
    allknown = []
    try:
        with open(os.path.join(VERIF, "known_findings.json")) as f:
            allknown = [e for e in json.load(f).get("findings", []) if e.get("status") == "known"]
    except Exception:
        pass
    for k, n in sorted(bystanders.items()):
        bp, bk = k.split(" ", 1)
        if any(e["property"] == bp and fnmatch.fnmatchcase(bk, e["key"]) for e in allknown):
            continue        # a recorded finding of the other property (printed by its own check)
        print("NOTE bystander %s (x%d)" % (k, n))
        if a.show_bystanders and k in bystander_samples:
            print("   " + str(bystander_samples[k]["detail"]).replace("\n", "\n   "))
            print("   case: " + json.dumps(bystander_samples[k]["case"], default=repr)[:3000])
            bp = os.path.join(VERIF, "replays", "bystander-%s-%s.json" % (prop, _slug(k)))
            with open(bp, "w") as f:
                json.dump({"property": prop, "tier": tier, "seed": seed, "key": k,
                           "case": bystander_samples[k]["case"]}, f, default=repr)
            print("   replay: " + bp)
    for key, n in sorted(unknown_keys.items()):
        print("VIOLATION property=%s replay=%s key=%s count=%d" % (prop, replay_paths[key], key, n))
        w = [v for v in violations if v["key"] == key][0]
        print("   " + w["detail"].replace("\n", "\n   ")[:700])
    if unknown_keys:
        return 1
    if inconclusive:
        seen = set()
        for r in inconclusive[:10]:
            msg = r.replace("\n", " | ")
            sig = msg.split(":", 1)[-1][-200:]
            if sig in seen:
                continue
            seen.add(sig)
            print("INCONCLUSIVE property=%s reason=%s" % (prop, msg[-700:]))
        return 2
    print("HELD on what was observed: property=%s" % prop)
    return 0


def _hashable(x):
    if isinstance(x, list):
        return tuple(_hashable(e) for e in x)
    return x


def _slug(key):
    import re
    return re.sub(r"[^A-Za-z0-9_.@-]+", "_", key)[:80]


if __name__ == "__main__":
    sys.exit(main())
