#!/bin/sh
# run every check at the given tier (default quick) and print one line per property
TIER=${1:-quick}
cd "$(dirname "$0")/.."
mkdir -p .work
for p in C01 C02 C03 C04 C05 C06 C07 C08 C09 C10 C11 C12 C13 C14 C15 C16 C17 C18 C19 C20; do
  ./check $p --tier $TIER > .work/runall-$p.log 2>&1
  rc=$?
  echo "$p rc=$rc $(head -1 .work/runall-$p.log) $(grep -c '^VIOLATION' .work/runall-$p.log) violations $(grep -c '^INCONCLUSIVE' .work/runall-$p.log) inconclusive"
done
