#!/bin/sh
# thorough tier of the given checks (default: the history-based ones), one line per property
cd "$(dirname "$0")/.."
mkdir -p .work
for p in ${@:-C09 C08 C05 C03 C04 C06 C07 C02 C11 C16}; do
  ./check $p --tier thorough --no-evidence > .work/thorough-$p.log 2>&1
  echo "$p rc=$? $(head -1 .work/thorough-$p.log) $(grep -c '^VIOLATION' .work/thorough-$p.log) violations"
done
