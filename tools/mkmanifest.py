#!/usr/bin/env python3
"""Regenerate MANIFEST.json from vlib/props_meta.py + CLAIMS below."""
import json
import os
import sys
HERE = os.path.dirname(os.path.realpath(__file__))
sys.path.insert(0, os.path.join(HERE, ".."))
from vlib.props_meta import META  # noqa
from vlib.claims import CLAIMS, HOOK_COMMITS  # noqa

props = [json.loads(l) for l in open(os.path.join(HERE, "..", "properties.jsonl"))]
checks = []
na = []
for p in props:
    pid = p["id"]
    c = CLAIMS.get(pid)
    if not c or pid not in META:
        na.append({"property_id": pid, "reason": (c or {}).get("na", "check not built yet in this round; see DESIGN.md §5 for its design")})
        continue
    checks.append({
        "property_id": pid,
        "quick_cmd": "./check %s --tier quick" % pid,
        "thorough_cmd": "./check %s --tier thorough" % pid,
        "evidence_file": "evidence/%s.json" % pid,
        "replay_cmd_template": "./check %s --replay {path}" % pid,
        "engine": "vlib",
        "level_claimed": {"category": "exploration", "text": c["text"], "design_ref": "DESIGN.md §5 " + pid},
        "level_note": c["note"],
        "technique": c["technique"],
    })
m = {
    "version": 1,
    "setup_cmd": "./setup.sh",
    "hooks": {
        "guard": "GFAPY_VERIF",
        "enable": "no source hook is needed: monitors are attached from /verif after import (wrapping class attributes, sys.monitoring); checks export GFAPY_VERIF=1 for symmetry only",
        "baseline_off_cmd": "cd /repo && env -u GFAPY_VERIF /venv/bin/python -m pytest -ra -q -p no:cacheprovider --timeout=900 --continue-on-collection-errors",
        "source_commits": HOOK_COMMITS,
        "add_only": True,
    },
    "engines": [{"name": "vlib", "path": "vlib/", "serves_properties": [c["property_id"] for c in checks],
                 "kind_free_text": "runtime monitoring: seeded workload generators drive the real gfapy from /repo under client-boundary recorders, quiescent-point invariant walkers, purity/atomicity guards, icontract contracts and sys.monitoring probes; independent text-level reference models of GFA act as oracles"}],
    "checks": checks,
    "not_applicable": na,
    "notes": "All checks: ./check <id> --tier quick|thorough, VERIF_SEED seeds every random choice; exit 0 held / 1 violation (VIOLATION line + replay) / 2 inconclusive. Known findings: known_findings.json.",
}
json.dump(m, open(os.path.join(HERE, "..", "MANIFEST.json"), "w"), indent=1)
print("checks:", len(checks), "not_applicable:", len(na))
