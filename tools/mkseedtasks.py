#!/usr/bin/env python3
"""Prepare one scratch worktree per property for a round of independent seeding sub-agents.

usage: tools/mkseedtasks.py <round letter> <directory under /tmp> [C01 C02 ...]

Each worktree gets a TASK.md holding ONLY the property text (statement + quantifier) and the working
rules; nothing from /verif is copied.  To keep the rounds from repeating themselves every agent is
restricted to the anchor files of its property which no earlier stored change of that property has
touched (when fewer than three are left: the files touched least often).
"""
import glob
import json
import os
import re
import subprocess
import sys

VERIF = os.path.realpath(os.path.join(os.path.dirname(__file__), ".."))
REPO = "/repo"


def touched(prop):
    out = {}
    for d in glob.glob(os.path.join(VERIF, "seeded", prop + "-*")):
        try:
            s = open(os.path.join(d, "patch.diff")).read()
        except OSError:
            continue
        for m in re.finditer(r"^diff --git a/(\S+)", s, re.M):
            out[m.group(1)] = out.get(m.group(1), 0) + 1
    return out


def anchors(p):
    files = []
    for pat in p["anchors"]["files"]:
        hits = sorted(glob.glob(os.path.join(REPO, pat)))
        for h in hits:
            rel = os.path.relpath(h, REPO)
            if rel.endswith(".py") or rel.startswith("bin/"):
                if not rel.endswith("__init__.py") and rel not in files:
                    files.append(rel)
    return files


TASK = """# Task: a realistic, hard-to-notice change that breaks one stated property of gfapy

You are working in a scratch git worktree of the Python library **gfapy** (ggonnella/gfapy): `{wt}`.
Work ONLY inside `{wt}`. Never read or touch `/repo`, `/verif`, or any other directory under `/tmp`.
Run python as `/venv/bin/python` with `PYTHONPATH={wt}` (e.g. `cd {wt} && PYTHONPATH={wt} /venv/bin/python -m pytest -q -p no:cacheprovider tests`). There is no network.

## The property (of the library as it is now in this worktree)

**{id} — {title}**

{statement}

Scope of the claim: {quant}

## What to produce

A change to the library's source code which **breaks this property** while
* the package still imports and the existing test suite (`tests/`, 365 tests pass now; one more,
  `test_stable_sequence_names`, may fail or pass at random - ignore it) still passes **unedited**,
* it looks like something a maintainer could plausibly have written (a refactoring slip, an "optimisation", a
  tidied-up condition, a forgotten case, a re-ordered pair of statements, a shared default, a cache that is not
  invalidated, an off-by-one, a too-narrow or too-wide regular expression or type test ...) - not sabotage, no dead
  code, no special-casing of magic values,
* it does **not** show in ordinary use.  It must need something specific to manifest (an unusual but valid input, a
  multi-step sequence of calls, a particular option or validation level, two sites which each look fine alone).

**Where:** {nrounds} rounds of this exercise have been done; they changed the central files of this mechanism.  This
time the change must be made in one (or, if the mechanism needs it, two) of the following files, which take part in
the property{unused} - pick the one which allows the subtlest clear violation:

{files}

Read these files and how they are used first; then choose a site whose breakage violates the property statement
clearly and unambiguously (not a gray zone of the GFA specification), through the public API.

First check that the behaviour you are about to break is really correct in the unchanged worktree (your
demonstration must PASS there).  If you find that the unchanged library already violates the property somewhere,
note it in meta.json under "preexisting" (with a short reproducer) - such observations are valuable - but do not use
it as your change.

## Deliverables (all inside `{wt}/SEEDED/`)

1. `patch.diff` - output of `git -C {wt} diff -- gfapy bin` (the worktree must contain exactly this change).
2. `demo.py` - a small stand-alone program using only the public API; run as
   `cd {wt} && PYTHONPATH={wt} /venv/bin/python SEEDED/demo.py`.  It must exit 0 and print PASS on the unchanged
   library, and exit 1 and print FAIL with a one-line explanation with your change applied.  Verify both
   (`git stash` is NOT allowed - it is shared between worktrees; use `git -C {wt} apply -R SEEDED/patch.diff` and
   `git -C {wt} apply SEEDED/patch.diff`).
3. `meta.json` - {{"property": "{id}", "summary": "<what was changed, 1-3 sentences>", "needs": "<what exactly is
   needed for the violation to manifest, and what ordinary use does NOT show it>", "files": [...],
   "preexisting": "<optional>"}}.

Before finishing: leave the change APPLIED in the worktree, confirm `pytest tests` still gives 365 (or 366) passed
with it, and confirm demo.py fails with it and passes without it.  Your final message: 5 lines at most (what you
changed, what it needs).
"""


def main():
    rnd, base = sys.argv[1], sys.argv[2]
    only = sys.argv[3:]
    nrounds = {"a": "no", "b": "one", "c": "two", "d": "three", "e": "four", "f": "five", "g": "six", "h": "seven",
               "i": "eight", "j": "nine"}.get(rnd, "several")
    os.makedirs(base, exist_ok=True)
    for l in open(os.path.join(VERIF, "properties.jsonl")):
        p = json.loads(l)
        if only and p["id"] not in only:
            continue
        t = touched(p["id"])
        a = anchors(p)
        free = [f for f in a if f not in t]
        note = " but have not been used yet"
        if len(free) < 3:
            free = sorted(a, key=lambda f: (t.get(f, 0), f))[:max(4, len(free))]
            note = " and have been used least so far (choose a part of them that looks untouched by care: a different function, a different branch)"
        wt = os.path.join(base, p["id"])
        if not os.path.exists(wt):
            subprocess.run(["git", "-C", REPO, "worktree", "add", "-q", "--detach", wt, "HEAD"], check=True)
        os.makedirs(os.path.join(wt, "SEEDED"), exist_ok=True)
        with open(os.path.join(wt, "TASK.md"), "w") as f:
            f.write(TASK.format(wt=wt, id=p["id"], title=p["title"], statement=p["statement"], quant=p["quantifier"]["text"],
                                nrounds=nrounds, unused=note, files="\n".join("* `%s`" % x for x in free)))
        print(p["id"], len(a), "anchor files,", len(free), "offered")


main()
