#!/usr/bin/env python3
"""Re-verify a stored seeded change against the CURRENT /repo HEAD and run checks against it.

usage: tools/seedcheck.py <seed-id> [--checks C01,C02] [--tier quick] [--budget N]
A scratch worktree of /repo HEAD is created under /tmp, the patch applied, the repository's tests
and the demonstration run (with and without the patch), the checks run with GFAPY_ROOT pointing at
the scratch copy, meta.json updated, and the worktree removed."""
import json
import os
import subprocess
import sys

VERIF = os.path.realpath(os.path.join(os.path.dirname(__file__), ".."))
PY = "/venv/bin/python"


def sh(cmd, cwd=None, env=None, timeout=7200):
    p = subprocess.run(cmd, shell=True, cwd=cwd, env=env, capture_output=True, text=True, timeout=timeout)
    return p.returncode, p.stdout + p.stderr


def main():
    a = sys.argv[1:]
    sid = a[0]
    checks, tier, budget = None, "quick", None
    for i, x in enumerate(a):
        if x == "--checks":
            checks = a[i + 1].split(",")
        if x == "--tier":
            tier = a[i + 1]
        if x == "--budget":
            budget = a[i + 1]
    sd = os.path.join(VERIF, "seeded", sid)
    meta = json.load(open(os.path.join(sd, "meta.json")))
    wt = "/tmp/seedwt-%s-%d" % (sid, os.getpid())
    rc, o = sh("git -C /repo worktree add -q --detach %s HEAD" % wt)
    if rc != 0:
        print(o)
        return 2
    try:
        env = dict(os.environ, PYTHONPATH=wt, PYTHONHASHSEED="0")
        rc0, d0 = sh("%s %s/demo.py" % (PY, sd), cwd=wt, env=env)
        rc, o = sh("git -C %s apply %s/patch.diff" % (wt, sd))
        if rc != 0:
            print("patch does not apply to the current HEAD:", o[-300:])
            meta["status"] = "patch does not apply to the current tree"
            json.dump(meta, open(os.path.join(sd, "meta.json"), "w"), indent=1)
            return 3
        rc, t = sh("%s -m pytest -q -p no:cacheprovider tests 2>&1 | tail -1" % PY, cwd=wt, env=env)
        rc1, d1 = sh("%s %s/demo.py" % (PY, sd), cwd=wt, env=env)
        ok = ("365 passed" in t or "366 passed" in t) and rc1 != 0 and rc0 == 0
        head = sh("git -C /repo rev-parse --short HEAD")[1].strip()
        print(sid, "confirmed" if ok else "NOT CONFIRMED", "| tests:", t.strip(), "| demo with:", rc1, "without:", rc0)
        results = {}
        for c in (checks or [meta["property"]]):
            cmd = "./check %s --tier %s --no-evidence" % (c, tier)
            if budget:
                cmd += " --budget %s" % budget
            rc, o = sh(cmd, cwd=VERIF, env=dict(os.environ, GFAPY_ROOT=wt))
            keys = [l.split("key=")[1].split(" count=")[0] for l in o.split("\n") if l.startswith("VIOLATION")]
            by = [l for l in o.split("\n") if l.startswith("NOTE bystander")]
            results[c] = {"exit": rc, "violation_keys": keys[:12], "bystanders": by[:8]}
            print("  ", c, "exit", rc, keys[:4], by[:3])
        meta["verification"] = {"repo_head": head, "tests_with_change": t.strip(), "demo_with_change_rc": rc1,
                                "demo_without_change_rc": rc0, "confirmed": ok,
                                "demo_with_change_tail": d1[-300:]}
        meta.setdefault("checks_run", {}).update(results)
        meta["caught_by"] = sorted(set(c for c, r in meta["checks_run"].items() if r["exit"] == 1))
        json.dump(meta, open(os.path.join(sd, "meta.json"), "w"), indent=1)
    finally:
        sh("git -C /repo worktree remove --force %s" % wt)
        sh("git -C /repo worktree prune")
    return 0


if __name__ == "__main__":
    sys.exit(main())
