#!/bin/sh
# re-verify every stored seeded change against the current /repo HEAD (quick tier of its property's check)
cd "$(dirname "$0")/.."
mkdir -p .work
for d in seeded/C*; do
  id=$(basename $d)
  python3 tools/seedcheck.py $id 2>&1 | tail -2 | tr '\n' ' '
  echo
done
python3 tools/seedreadme.py
