#!/bin/sh
# re-verify every stored seeded change against the current /repo HEAD (quick tier of its property's check)
# usage: tools/seedall.sh [parallel jobs, default 3]
cd "$(dirname "$0")/.."
mkdir -p .work
J=${1:-3}
ls -d seeded/C* | xargs -n1 basename | xargs -P "$J" -I{} sh -c 'python3 tools/seedcheck.py {} 2>&1 | tail -2 | tr "\n" " "; echo'
python3 tools/seedreadme.py
