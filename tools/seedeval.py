#!/usr/bin/env python3
"""Confirm a seeded change produced in a scratch worktree and run checks against it.

usage: tools/seedeval.py <seed-id> <worktree> [--checks C01,C02] [--tier quick] [--budget N]
 - confirms: existing tests unchanged with the change, demo fails with / passes without the change
 - copies patch.diff, demo.py, meta.json to /verif/seeded/<seed-id>/
 - runs the given checks (default: the property named in meta.json) with GFAPY_ROOT=<worktree>
 - appends the outcome to /verif/seeded/<seed-id>/meta.json
"""
import json
import os
import shutil
import subprocess
import sys

VERIF = os.path.realpath(os.path.join(os.path.dirname(__file__), ".."))
PY = "/venv/bin/python"


def sh(cmd, cwd=None, env=None, timeout=3600):
    p = subprocess.run(cmd, shell=True, cwd=cwd, env=env, capture_output=True, text=True, timeout=timeout)
    return p.returncode, p.stdout + p.stderr


def main():
    a = sys.argv[1:]
    sid, wt = a[0], a[1]
    checks = None
    tier = "quick"
    budget = None
    for i, x in enumerate(a):
        if x == "--checks":
            checks = a[i + 1].split(",")
        if x == "--tier":
            tier = a[i + 1]
        if x == "--budget":
            budget = a[i + 1]
    sd = os.path.join(wt, "SEEDED")
    meta = json.load(open(os.path.join(sd, "meta.json")))
    env = dict(os.environ, PYTHONPATH=wt, PYTHONHASHSEED="0")
    out = {}
    # the worktree must hold exactly the agent's patch (git stash is shared between worktrees:
    # never use it; foreign hunks are dropped by restoring from SEEDED/patch.diff)
    rc, diff = sh("git -C %s diff -- gfapy bin" % wt)
    saved = open(os.path.join(sd, "patch.diff")).read()
    if diff.strip() != saved.strip():
        print("worktree differs from SEEDED/patch.diff: restoring from the saved patch")
        sh("git -C %s checkout -- gfapy bin" % wt)
        rc, o = sh("git -C %s apply SEEDED/patch.diff" % wt)
        if rc != 0:
            print("saved patch does not apply:", o)
            return 2
        rc, diff = sh("git -C %s diff -- gfapy bin" % wt)
    if not diff.strip():
        print("no change in worktree")
        return 2
    tmp = os.path.join(wt, "SEEDED", ".current.diff")
    with open(tmp, "w") as f:
        f.write(diff)
    rc, t = sh("%s -m pytest -q -p no:cacheprovider tests 2>&1 | grep -v '^FAILED tests/test_api_rgfa.py::TestAPIrGfa::test_stable_sequence_names' | tail -3" % PY, cwd=wt, env=env)
    if "FAILED" in t:
        print("a test other than test_stable_sequence_names fails:", t)
    out["tests_with_change"] = t.strip().split("\n")[-1]
    rc1, d1 = sh("%s SEEDED/demo.py" % PY, cwd=wt, env=env)
    out["demo_with_change"] = {"rc": rc1, "tail": d1[-400:]}
    sh("git -C %s apply -R SEEDED/.current.diff" % wt)
    try:
        rc0, d0 = sh("%s SEEDED/demo.py" % PY, cwd=wt, env=env)
    finally:
        rcp, po = sh("git -C %s apply SEEDED/.current.diff" % wt)
    out["demo_without_change"] = {"rc": rc0, "tail": d0[-300:]}
    tw = out["tests_with_change"]
    ok = ("366 passed" in tw or ("365 passed" in tw and ("1 failed" in tw or "failed" not in tw))) and rc1 != 0 and rc0 == 0
    out["confirmed"] = ok
    dst = os.path.join(VERIF, "seeded", sid)
    os.makedirs(dst, exist_ok=True)
    with open(os.path.join(dst, "patch.diff"), "w") as f:
        f.write(diff)
    shutil.copy(os.path.join(sd, "demo.py"), os.path.join(dst, "demo.py"))
    print("confirmed" if ok else "NOT CONFIRMED", out["tests_with_change"], "demo with:", rc1, "without:", rc0)
    results = {}
    for c in (checks or [meta["property"]]):
        cmd = "./check %s --tier %s --no-evidence" % (c, tier)
        if budget:
            cmd += " --budget %s" % budget
        rc, o = sh(cmd, cwd=VERIF, env=dict(os.environ, GFAPY_ROOT=wt))
        keys = [l.split("key=")[1].split(" count=")[0] for l in o.split("\n") if l.startswith("VIOLATION")]
        by = [l for l in o.split("\n") if l.startswith("NOTE bystander")]
        results[c] = {"exit": rc, "violation_keys": keys[:12], "bystanders": by[:8]}
        print(c, "exit", rc, keys[:6], by[:4])
    meta.update({"what_it_needs": meta.get("needs"), "verification": out, "checks_run": results,
                 "caught_by": [c for c, r in results.items() if r["exit"] == 1]})
    with open(os.path.join(dst, "meta.json"), "w") as f:
        json.dump(meta, f, indent=1)
    return 0


if __name__ == "__main__":
    sys.exit(main())
